// Throwaway oracle probes, part 2 (design phase).
use std::collections::{BTreeMap, BTreeSet, HashMap, HashSet};
use std::panic::{catch_unwind, AssertUnwindSafe};
use text_utils::tokenization::*;
use text_utils::utils::SerializeMsgPack;
use unicode_segmentation::UnicodeSegmentation;

fn strings(alpha: &[&str], maxlen: usize) -> Vec<String> {
    let mut out = vec![String::new()]; let mut layer = vec![String::new()];
    for _ in 0..maxlen { let mut next = vec![]; for s in &layer { for a in alpha { next.push(format!("{s}{a}")); } } out.extend(next.iter().cloned()); layer = next; }
    out
}
fn scratch() -> String { let d = format!("/dev/shm/pa2_{}", std::process::id()); std::fs::create_dir_all(&d).unwrap(); d }

// ---- C02/C03
fn ref_bpe(s: &str, table: &HashMap<Vec<u8>, u32>) -> Vec<u32> {
    // words: \s+\S+ | ^\S+
    let chars: Vec<(usize, char)> = s.char_indices().collect(); let mut words: Vec<&str> = vec![]; let mut i = 0;
    while i < chars.len() { let st = i; while i < chars.len() && chars[i].1.is_whitespace() { i += 1; } if i == chars.len() { break; } while i < chars.len() && !chars[i].1.is_whitespace() { i += 1; }
        let b0 = chars[st].0; let b1 = if i < chars.len() { chars[i].0 } else { s.len() }; words.push(&s[b0..b1]); }
    let mut out = vec![];
    for w in words { let mut toks: Vec<(Vec<u8>, u32)> = w.bytes().map(|b| (vec![b], b as u32)).collect();
        loop { let mut best: Option<(u32, usize)> = None;
            for k in 0..toks.len().saturating_sub(1) { let c = [toks[k].0.as_slice(), toks[k + 1].0.as_slice()].concat(); if let Some(id) = table.get(&c) { if best.map_or(true, |(b, _)| *id < b) { best = Some((*id, k)); } } }
            let Some((id, k)) = best else { break }; let c = [toks[k].0.as_slice(), toks[k + 1].0.as_slice()].concat(); toks[k] = (c, 256 + id); toks.remove(k + 1); }
        out.extend(toks.into_iter().map(|t| t.1)); }
    out
}
fn c03(entries: usize, maxlen: usize) {
    let dir = scratch(); let base: Vec<Vec<u8>> = vec![b"a".to_vec(), b"b".to_vec(), b"c".to_vec(), b" ".to_vec()];
    let strs = strings(&["a", "b", "c", " "], maxlen);
    let mut tables: Vec<Vec<Vec<u8>>> = vec![vec![]];
    for _ in 0..entries { let mut nx = vec![]; for t in &tables { if t.len() + 1 < tables[0].len() {} let toks: Vec<Vec<u8>> = base.iter().cloned().chain(t.iter().cloned()).collect();
        let mut seen = BTreeSet::new(); for x in &toks { for y in &toks { let c = [x.as_slice(), y.as_slice()].concat(); if t.contains(&c) || !seen.insert(c.clone()) { continue; } let mut t2 = t.clone(); t2.push(c); nx.push(t2); } } }
        tables.extend(nx.iter().cloned()); tables.retain(|_| true); tables = { let mut all = tables; all.sort(); all.dedup(); all }; }
    let (mut n, mut bad2, mut bad3) = (0usize, 0usize, 0usize); let mut f2 = String::new(); let mut f3 = String::new();
    for t in &tables { if t.is_empty() { continue; }
        let m: MergeOps = t.iter().enumerate().map(|(i, e)| (e.clone(), i as u32)).collect(); let p = format!("{dir}/m.bin"); m.save(&p).unwrap();
        let tok = BPETokenizer::new(BPETokenizerConfig { merge_file: p.into(), max_vocab_size: None, use_graphemes: true }, SpecialConfig::default()).unwrap();
        for s in &strs { n += 1; let ids = tok.tokenize(s, true).unwrap().token_ids; let dec = tok.de_tokenize(&ids, true).unwrap();
            if dec != s.trim_end() { bad2 += 1; if f2.is_empty() { f2 = format!("{t:?} {s:?} -> {ids:?} {dec:?}"); } }
            let r = ref_bpe(s, &m); if r != ids { bad3 += 1; if f3.is_empty() { f3 = format!("{:?} {s:?} impl={ids:?} ref={r:?}", t.iter().map(|e| String::from_utf8_lossy(e).to_string()).collect::<Vec<_>>()); } } } }
    println!("C02/C03: {} tables, {n} cases, lossless-bad={bad2} {f2} canonical-bad={bad3} {f3}", tables.len());
    std::fs::remove_dir_all(dir).ok();
}

// ---- C07
fn c07(maxsrc: usize, maxlen: usize) {
    use text_utils::data::loading::*; use text_utils::data::TrainData;
    let mut vecs: Vec<Vec<usize>> = vec![]; let mut layer: Vec<Vec<usize>> = vec![vec![]];
    for _ in 0..maxsrc { let mut nx = vec![]; for v in &layer { for l in 0..=maxlen { let mut w = v.clone(); w.push(l); nx.push(w); } } vecs.extend(nx.iter().cloned()); layer = nx; }
    let (mut n, mut bad) = (0usize, 0usize); let mut first: BTreeMap<String, String> = BTreeMap::new();
    for lens in &vecs { for (sn, strat) in [GenerationStrategy::Sequential, GenerationStrategy::Interleaved, GenerationStrategy::Weighted].into_iter().enumerate() { for seed in 0..4u64 { n += 1;
        let mk = || -> anyhow::Result<MultiTrainDataGenerator> { let gens: Vec<TrainDataGenerator> = lens.iter().enumerate().map(|(si, l)| { let v: Vec<MaybeTrainData> = (0..*l).map(|k| Ok(TrainData::new(format!("s{si}i{k}"), None))).collect(); Box::new(v.into_iter()) as TrainDataGenerator }).collect(); MultiTrainDataGenerator::new(gens, strat, Some(seed)) };
        let total: usize = lens.iter().sum();
        let run = || -> Result<Vec<(String, usize)>, String> { let mut g = mk().map_err(|e| e.to_string())?; let mut out = vec![]; for _ in 0..total + 2 { match g.next() { Some((d, i)) => out.push((format!("{:?}", d.unwrap()), i)), None => break } } if g.next().is_some() { return Err("not-ended".into()); } Ok(out) };
        let r = run(); let mut why: Option<String> = None;
        match r { Err(e) => { if !(sn == 2 && lens.contains(&0)) { why = Some(format!("err {e}")); } }
            Ok(out) => { if sn == 2 && lens.contains(&0) { why = Some("weighted-accepts-empty".into()); }
                if out.len() != total { why = Some("count".into()); }
                let mut per: Vec<usize> = vec![0; lens.len()]; for (d, i) in &out { if !d.contains(&format!("\"s{i}i{}\"", per[*i])) { why = Some("order/tag".into()); } per[*i] += 1; }
                if sn == 0 { let exp: Vec<usize> = lens.iter().enumerate().flat_map(|(i, l)| std::iter::repeat(i).take(*l)).collect(); if out.iter().map(|x| x.1).collect::<Vec<_>>() != exp { why = Some("seq-order".into()); } }
                if sn == 1 { let mut rem = lens.clone(); let mut exp = vec![]; let mut i = 0; while rem.iter().any(|r| *r > 0) { if rem[i] > 0 { exp.push(i); rem[i] -= 1; } i = (i + 1) % rem.len(); } if out.iter().map(|x| x.1).collect::<Vec<_>>() != exp { why = Some(format!("rr-order {:?} vs {exp:?}", out.iter().map(|x| x.1).collect::<Vec<_>>())); } }
                if run().ok() != Some(out) { why = Some("nondet".into()); } } }
        if let Some(w) = why { bad += 1; first.entry(w.split(' ').next().unwrap().to_string()).or_insert(format!("{lens:?} strat={sn} seed={seed}: {w}")); }
    }}}
    println!("C07: {n} cases, {bad} bad"); for (k, v) in first { println!("   {k}: {v}"); }
}

// ---- C10
fn c10(maxw: usize) {
    use text_utils::whitespace::*;
    let alpha = ["a", "ä", "😀", "e\u{301}", "\u{1F1E9}", "\u{1100}", "\u{1161}"]; let (mut n, mut bad) = (0usize, 0usize); let mut first: BTreeMap<String, (usize, String)> = BTreeMap::new();
    let seqs = { let mut out: Vec<Vec<&str>> = vec![]; let mut layer: Vec<Vec<&str>> = vec![vec![]]; for _ in 0..maxw { let mut nx = vec![]; for s in &layer { for x in alpha { let mut v = s.clone(); v.push(x); nx.push(v); } } out.extend(nx.iter().cloned()); layer = nx; } out };
    for w in &seqs { let k = w.len() - 1; for g1 in 0..(1u32 << k) { for g2 in 0..(1u32 << k) { for g in [false, true] { n += 1;
        let build = |gv: u32| { let mut s = String::new(); for (i, c) in w.iter().enumerate() { s.push_str(c); if i < k && gv >> i & 1 == 1 { s.push(' '); } } s };
        let (from, to) = (build(g1), build(g2));
        let nchars = if g { from.graphemes(true).count() } else { from.chars().count() };
        let unstable = g && (from.graphemes(true).filter(|c| !c.chars().all(char::is_whitespace)).collect::<Vec<_>>() != to.graphemes(true).filter(|c| !c.chars().all(char::is_whitespace)).collect::<Vec<_>>());
        let mut why: Option<&str> = None;
        match operations(&from, &to, g) { Err(_) => why = Some("ops-err"), Ok(ops) => { if ops.len() != nchars { why = Some("ops-len"); } match repair(&from, &ops, g) { Ok(r) => if r != to { why = Some("repair-neq") }, Err(_) => why = Some("repair-err") } } }
        if let Some(wy) = why { bad += 1; let key = format!("{wy} unstable={unstable}"); let e = first.entry(key).or_insert((0, format!("{from:?} -> {to:?} g={g}"))); e.0 += 1; }
    }}}}
    println!("C10a: {n} cases, {bad} bad"); for (k, v) in first { println!("   {k}: {} e.g. {}", v.0, v.1); }
    // (b)
    let (mut n, mut bad) = (0usize, 0usize); let mut f = String::new();
    for s in strings(&["a", " ", "\t", "ä", "\u{a0}"], 4) { for g in [false, true] { let len = if g { s.graphemes(true).count() } else { s.chars().count() };
        for code in 0..3usize.pow(len as u32) { n += 1; let ops: Vec<Operation> = (0..len).map(|i| match code / 3usize.pow(i as u32) % 3 { 0 => Operation::Keep, 1 => Operation::Insert, _ => Operation::Delete }).collect();
            let r = catch_unwind(AssertUnwindSafe(|| repair(&s, &ops, g)));
            let ok = match r { Ok(Ok(o)) => { let nw = |x: &str| x.chars().filter(|c| !c.is_whitespace()).collect::<String>(); nw(&o) == nw(&s) && (code != 0 || o == s) } _ => false };
            if !ok { bad += 1; if f.is_empty() { f = format!("{s:?} {ops:?}"); } } }
        let bad_len = catch_unwind(AssertUnwindSafe(|| repair(&s, &vec![Operation::Keep; len + 1], g))); if !matches!(bad_len, Ok(Err(_))) { bad += 1; f = format!("len-mismatch {s:?}"); } } }
    println!("C10b: {n} cases, {bad} bad {f}");
}

// ---- C13
fn c13(maxlen: usize) {
    use text_utils::metrics::*;
    let ss = strings(&["a", "b", " "], maxlen); let (mut n, mut bad) = (0usize, 0usize); let mut first: BTreeMap<String, (usize, String)> = BTreeMap::new();
    for i in &ss { for p in &ss { for t in &ss { n += 1;
        let r = catch_unwind(AssertUnwindSafe(|| spelling_correction_f1(&[i.as_str()], &[p.as_str()], &[t.as_str()], 1.0, true, true)));
        let iw = i.split_whitespace().count(); let pw = p.split_whitespace().count();
        let why = match r { Err(_) => Some(format!("panic input_words={} pred_words={}", if iw == 0 { "0" } else { ">0" }, if pw == 0 { "0" } else { ">0" })),
            Ok(Err(_)) => Some("err".to_string()), Ok(Ok(((f, pr, rc), _))) => if [f, pr, rc].iter().all(|x| x.is_finite() && *x >= 0.0 && *x <= 1.0) { None } else { Some("range".to_string()) } };
        if let Some(w) = why { bad += 1; let e = first.entry(w).or_insert((0, format!("{i:?} {p:?} {t:?}"))); e.0 += 1; }
    }}}
    println!("C13 spelling: {n} triples, {bad} bad"); for (k, v) in first { println!("   {k}: {} e.g. {}", v.0, v.1); }
    // whitespace f1 on content-equal triples
    let (mut n, mut bad) = (0usize, 0usize); let mut first: BTreeMap<String, (usize, String)> = BTreeMap::new();
    for i in &ss { for p in &ss { for t in &ss { let nw = |x: &str| x.chars().filter(|c| !c.is_whitespace()).collect::<String>(); if nw(i) != nw(p) || nw(i) != nw(t) { continue; } n += 1;
        let r = catch_unwind(AssertUnwindSafe(|| whitespace_correction_f1(&[i.as_str()], &[p.as_str()], &[t.as_str()], 1.0, false, WhitespaceCorrectionMode::InsertionsAndDeletions, true)));
        let why = match r { Err(_) => Some("panic".to_string()), Ok(Err(_)) => Some("err".to_string()), Ok(Ok(((f, pr, rc), _))) => if [f, pr, rc].iter().all(|x| x.is_finite() && *x >= 0.0 && *x <= 1.0) { if p == t && (pr < 1.0 || rc < 1.0) && i != t { Some("pred==target-not-perfect".to_string()) } else { None } } else { Some("range".to_string()) } };
        if let Some(w) = why { bad += 1; let e = first.entry(w).or_insert((0, format!("{i:?} {p:?} {t:?}"))); e.0 += 1; }
    }}}
    println!("C13 whitespace: {n} triples, {bad} bad"); for (k, v) in first { println!("   {k}: {} e.g. {}", v.0, v.1); }
}

// ---- C20
fn c20() {
    use text_utils::dictionary::*;
    let dir = scratch(); let lines = strings(&["a", "b", "A", "-", " "], 3); let (mut n, mut bad) = (0usize, 0usize); let mut first: BTreeMap<String, String> = BTreeMap::new();
    for l1 in &lines { for l2 in lines.iter().step_by(7) { let f = format!("{dir}/c.txt"); std::fs::write(&f, format!("{l1}\n{l2}\n")).unwrap();
        for ms in [None, Some(0usize), Some(1), Some(2), Some(10)] { for mseq in [None, Some(0usize), Some(1)] { for chars in [(false, 1u8), (true, 1), (true, 3)] {
            let mut results = vec![];
            for th in [0u8, 1, 3] { n += 1; let r = catch_unwind(AssertUnwindSafe(|| Dictionary::create(&[&f], ms, mseq, th, chars.0, chars.1, false).map(|d| { let mut v: Vec<(String, usize)> = d.items().map(|(k, v)| (k.clone(), *v)).collect(); v.sort(); (v, d.freq_sum) })));
                match r { Err(_) => { bad += 1; first.entry("panic".into()).or_insert(format!("{l1:?} {l2:?} ms={ms:?} mseq={mseq:?} chars={chars:?} th={th}")); } Ok(Err(e)) => { bad += 1; first.entry("err".into()).or_insert(format!("{e}")); } Ok(Ok(v)) => results.push(v) } }
            if results.windows(2).any(|w| w[0] != w[1]) { bad += 1; first.entry("thread-dependent".into()).or_insert(format!("{l1:?} {l2:?} ms={ms:?} {results:?}")); }
            if let Some((v, fs)) = results.first() { // reference
                let used: Vec<&String> = [l1, l2].into_iter().take(mseq.unwrap_or(usize::MAX)).collect();
                let mut refc: HashMap<String, usize> = HashMap::new();
                for l in used { let c = text_utils::unicode::normalize(&text_utils::text::clean(l, true), text_utils::unicode::Normalization::NFKC, true);
                    for (word, parts) in text_utils::text::split_words(&c) { if !chars.0 { if let Some(ps) = parts { for (p, _) in ps { *refc.entry(p.to_string()).or_insert(0) += 1; } } } else {
                        let mut cs: Vec<&str> = vec![]; if chars.1 > 1 { cs.push("<bow>"); } cs.extend(word.graphemes(true)); if chars.1 > 1 { cs.push("<eow>"); }
                        for w in cs.windows(chars.1 as usize) { let c = w[w.len() / 2]; if c.chars().all(char::is_alphabetic) || c == "-" { *refc.entry(w.join(" ")).or_insert(0) += 1; } } } } }
                let lim = ms.unwrap_or(usize::MAX);
                let ok_sub = v.iter().all(|(k, c)| refc.get(k) == Some(c)); let minkept = v.iter().map(|x| x.1).min().unwrap_or(usize::MAX); let maxomit = refc.iter().filter(|(k, _)| !v.iter().any(|x| &x.0 == *k)).map(|x| *x.1).max().unwrap_or(0);
                if !ok_sub || v.len() != lim.min(refc.len()) || maxomit > minkept || *fs != v.iter().map(|x| x.1).sum::<usize>() { bad += 1; first.entry("counts".into()).or_insert(format!("{l1:?} {l2:?} ms={ms:?} mseq={mseq:?} chars={chars:?} got={v:?} ref={refc:?}")); } }
    }}}}}
    println!("C20: {n} creates, {bad} bad"); for (k, v) in first { println!("   {k}: {v}"); }
    std::fs::remove_dir_all(dir).ok();
}

fn main() {
    let a: Vec<String> = std::env::args().collect(); let l: usize = a.get(2).and_then(|x| x.parse().ok()).unwrap_or(3); let l2: usize = a.get(3).and_then(|x| x.parse().ok()).unwrap_or(3);
    std::panic::set_hook(Box::new(|_| {}));
    match a[1].as_str() { "c03" => c03(l, l2), "c07" => c07(l, l2), "c10" => c10(l), "c13" => c13(l), "c20" => c20(), _ => {} }
}
