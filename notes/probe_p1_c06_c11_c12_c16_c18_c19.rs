// Throwaway oracle probes (design phase). Not part of the machinery.
use std::collections::{BTreeMap, HashMap, HashSet};
use std::panic::{catch_unwind, AssertUnwindSafe};
use text_utils::data::loading::*;
use text_utils::tokenization::*;
use text_utils::utils::SerializeMsgPack;

fn strings(alpha: &[&str], maxlen: usize) -> Vec<String> {
    let mut out = vec![String::new()]; let mut layer = vec![String::new()];
    for _ in 0..maxlen { let mut next = vec![]; for s in &layer { for a in alpha { next.push(format!("{s}{a}")); } } out.extend(next.iter().cloned()); layer = next; }
    out
}
fn scratch() -> String { let d = format!("/dev/shm/pa_{}", std::process::id()); std::fs::create_dir_all(&d).unwrap(); d }

// ---------- C19: train_bpe vs recount ----------
fn seg_words(lines: &[String]) -> HashMap<String, usize> {
    let mut m = HashMap::new();
    for l in lines { let c: Vec<&str> = l.split_whitespace().collect(); for (i, w) in c.iter().enumerate() { let k = if i == 0 { w.to_string() } else { format!(" {w}") }; *m.entry(k).or_insert(0) += 1; } }
    m
}
fn apply(word: &[Vec<u8>], a: &[u8], b: &[u8]) -> Vec<Vec<u8>> {
    let mut out: Vec<Vec<u8>> = vec![]; let mut i = 0;
    while i < word.len() { if i + 1 < word.len() && word[i] == a && word[i + 1] == b { out.push([a, b].concat()); i += 2; } else { out.push(word[i].clone()); i += 1; } }
    out
}
fn c19(maxlen: usize) {
    let dir = scratch(); let mut n = 0; let mut bad = 0; let mut kinds: BTreeMap<String, (usize, String)> = BTreeMap::new();
    let mut corpora: Vec<Vec<String>> = strings(&["a", "b", " "], maxlen).into_iter().map(|s| vec![s]).collect();
    let short = strings(&["a", "b", " "], 3); for x in &short { for y in &short { corpora.push(vec![x.clone(), y.clone()]); } }
    for lines in &corpora { for m in [1usize, 2, 3, 5, 60] { for th in [0u8, 2] {
        let f = format!("{dir}/c.txt"); std::fs::write(&f, lines.iter().map(|l| format!("{l}\n")).collect::<String>()).unwrap();
        let o = format!("{dir}/o.bin");
        train_bpe(&[&f], 320, 64 - m, &o, None, None, th, false).unwrap(); n += 1;
        let t = MergeOps::load(&o).unwrap();
        let mut ents: Vec<(u32, Vec<u8>)> = t.iter().map(|(k, v)| (*v, k.clone())).collect(); ents.sort();
        let mut why = String::new();
        if ents.len() > m { why = "too-many".into(); }
        if why.is_empty() && !ents.iter().enumerate().all(|(i, e)| e.0 as usize == i) { why = "ids-not-contiguous".into(); }
        if why.is_empty() {
            let mut corpus: Vec<(Vec<Vec<u8>>, usize)> = seg_words(lines).into_iter().map(|(w, c)| (w.bytes().map(|b| vec![b]).collect(), c)).collect();
            for (i, e) in &ents {
                let mut freq: HashMap<(Vec<u8>, Vec<u8>), usize> = HashMap::new();
                for (w, c) in &corpus { for k in 1..w.len() { *freq.entry((w[k - 1].clone(), w[k].clone())).or_insert(0) += c; } }
                let mx = freq.values().copied().max().unwrap_or(0);
                let cands: Vec<_> = freq.iter().filter(|((x, y), _)| [x.as_slice(), y.as_slice()].concat() == *e).collect();
                if cands.is_empty() { why = format!("entry{i}-not-a-pair"); break; }
                let best = cands.iter().max_by_key(|(_, f)| **f).unwrap();
                if *best.1 == 0 { why = format!("entry{i}-zero"); break; }
                if *best.1 != mx { why = format!("entry{i}-not-max({} vs {mx})", best.1); break; }
                let (a, b) = best.0.clone();
                corpus = corpus.into_iter().map(|(w, c)| (apply(&w, &a, &b), c)).collect();
            }
            if why.is_empty() && ents.len() < m { // exhausted?
                let any = corpus.iter().any(|(w, _)| w.len() > 1);
                if any { why = "stopped-early".into(); }
            }
        }
        if !why.is_empty() { bad += 1; let key = why.split('(').next().unwrap().trim_start_matches(|c: char| c.is_ascii_digit()).to_string();
            kinds.entry(key).or_insert((0, format!("{lines:?} m={m} th={th} -> {:?} [{why}]", ents.iter().map(|e| String::from_utf8_lossy(&e.1).to_string()).collect::<Vec<_>>()))).0 += 1; }
    }}}
    println!("C19: {n} trainings, {bad} bad"); for (k, v) in kinds { println!("   {k}: {} e.g. {}", v.0, v.1); }
    std::fs::remove_dir_all(dir).ok();
}

// ---------- C06 ----------
struct It(usize, usize);
impl ItemSize for It { fn size(&self) -> usize { self.1 } }
fn c06(maxlen: usize) {
    let sizes = [0usize, 1, 2, 3, 5];
    let mut seqs: Vec<Vec<usize>> = vec![vec![]]; let mut layer: Vec<Vec<usize>> = vec![vec![]];
    for _ in 0..maxlen { let mut nx = vec![]; for s in &layer { for z in sizes { let mut v = s.clone(); v.push(z); nx.push(v); } } seqs.extend(nx.iter().cloned()); layer = nx; }
    let (mut n, mut bad) = (0usize, 0usize); let mut first: BTreeMap<&'static str, String> = BTreeMap::new();
    for seq in &seqs { for sort in [false, true] { for shuffle in [false, true] { for pf in 0..4usize { for lim in [0usize, 1, 2, 3, 4, 6] { for ty in [BatchLimitType::BatchSize, BatchLimitType::PaddedItemSize] { for seed in 0..(if shuffle { 4u64 } else { 1 }) {
        n += 1;
        let run = || { let it = seq.iter().enumerate().map(|(i, s)| It(i, *s)).collect::<Vec<_>>().into_iter();
            it.batched(sort, shuffle, pf, lim, ty, Some(seed)).take(seq.len() + 2).map(|b| b.iter().map(|x| (x.0, x.1)).collect::<Vec<_>>()).collect::<Vec<_>>() };
        let out = run(); let out2 = run();
        let l = lim.max(1); let is_bs = matches!(ty, BatchLimitType::BatchSize);
        let mut why: Option<&'static str> = None;
        if out != out2 { why = Some("nondet"); }
        if out.len() > seq.len() { why = Some("too-many-batches"); }
        if out.iter().any(|b| b.is_empty()) { why = Some("empty-batch"); }
        let mut ids: Vec<usize> = out.iter().flatten().map(|x| x.0).collect(); 
        if !sort && !shuffle && ids != (0..seq.len()).collect::<Vec<_>>() { why = Some("plain-order"); }
        ids.sort(); if ids != (0..seq.len()).collect::<Vec<_>>() { why = Some("not-partition"); }
        for b in &out { if b.len() > 1 { let v = if is_bs { b.len() } else { b.len() * b.iter().map(|x| x.1).max().unwrap() }; if v > l { why = Some("over-limit"); } } }
        if !sort && !shuffle && why.is_none() { // greedy-maximal
            let mut k = 0; for b in &out { k += b.len(); if k < seq.len() { let mut sz: Vec<usize> = b.iter().map(|x| x.1).collect(); sz.push(seq[k]); let v = if is_bs { sz.len() } else { sz.len() * sz.iter().max().unwrap() }; if v <= l { why = Some("not-greedy"); } } } }
        if let Some(w) = why { bad += 1; first.entry(w).or_insert(format!("{seq:?} sort={sort} shuffle={shuffle} pf={pf} lim={lim} bs={is_bs} seed={seed} -> {out:?}")); }
    }}}}}}}
    println!("C06: {n} runs, {bad} bad"); for (k, v) in first { println!("   {k}: {v}"); }
}

// ---------- C11 ----------
fn c11(maxlen: usize) {
    let alpha = ["a", "ä", " ", "\t", "\n", "\r", "\u{a0}", "\u{3000}", "\u{200b}"];
    let (mut n, mut bad) = (0usize, 0usize); let mut first: BTreeMap<&'static str, String> = BTreeMap::new();
    for s in strings(&alpha, maxlen) { for g in [false, true] { n += 1;
        let c = text_utils::text::clean(&s, g); let exp = s.split_whitespace().collect::<Vec<_>>().join(" ");
        let mut why = None;
        if c != exp { why = Some("clean"); }
        if text_utils::text::clean(&c, g) != c { why = Some("idempotent"); }
        let rm = text_utils::whitespace::remove(&s, g); if rm != s.chars().filter(|c| !c.is_whitespace()).collect::<String>() { why = Some("remove"); }
        let cs = text_utils::unicode::CharString::new(&s, g);
        let chars: Vec<&str> = (0..cs.len()).map(|i| cs.get(i).unwrap()).collect();
        let mut expb = vec![]; let mut st: Option<usize> = None;
        for (i, ch) in chars.iter().enumerate() { let ws = ch.chars().all(char::is_whitespace); match (ws, st) { (true, Some(a)) => { expb.push((a, i)); st = None; } (false, None) => st = Some(i), _ => {} } }
        if let Some(a) = st { expb.push((a, chars.len())); }
        if text_utils::text::word_boundaries(&s, g) != expb { why = Some("boundaries"); }
        let words: Vec<String> = expb.iter().map(|(a, b)| cs.sub(*a, *b).to_string()).collect();
        if words != s.split_whitespace().map(|x| x.to_string()).collect::<Vec<_>>() { why = Some("boundary-words"); }
        let full = text_utils::whitespace::full(&s, g); let expf = chars.iter().filter(|c| !c.chars().all(char::is_whitespace)).cloned().collect::<Vec<_>>().join(" "); if full != expf { why = Some("full"); }
        if let Some(w) = why { bad += 1; first.entry(w).or_insert(format!("{s:?} g={g} clean={c:?}")); }
    }}
    println!("C11: {n} cases, {bad} bad"); for (k, v) in first { println!("   {k}: {v}"); }
}

// ---------- C12 ----------
fn refdist(a: &[&str], b: &[&str], swap: bool, sp: bool) -> Vec<Vec<usize>> {
    let ws = |s: &str| s.chars().all(char::is_whitespace);
    let (n, m) = (a.len(), b.len()); let inf = usize::MAX / 2; let mut d = vec![vec![inf; m + 1]; n + 1]; d[0][0] = 0;
    for i in 0..=n { for j in 0..=m {
        let cur = d[i][j]; if cur >= inf { continue; }
        if i < n { d[i + 1][j] = d[i + 1][j].min(cur + 1); }
        if j < m { d[i][j + 1] = d[i][j + 1].min(cur + 1); }
        if i < n && j < m { if a[i] == b[j] { d[i + 1][j + 1] = d[i + 1][j + 1].min(cur); } else if !sp || (!ws(a[i]) && !ws(b[j])) { d[i + 1][j + 1] = d[i + 1][j + 1].min(cur + 1); } }
        if swap && i + 1 < n && j + 1 < m && a[i] == b[j + 1] && a[i + 1] == b[j] && (!sp || (!ws(a[i]) && !ws(a[i + 1]))) { d[i + 2][j + 2] = d[i + 2][j + 2].min(cur + 1); }
    }}
    d
}
fn c12(maxlen: usize) {
    use text_utils::edit::*;
    let ss = strings(&["a", "b", " ", "ä"], maxlen); let (mut n, mut bad) = (0usize, 0usize); let mut first: BTreeMap<String, String> = BTreeMap::new();
    for a in &ss { for b in &ss { for swap in [false, true] { for sp in [false, true] { let g = true; n += 1;
        let ac: Vec<&str> = unicode_segmentation::UnicodeSegmentation::graphemes(a.as_str(), true).collect();
        let bc: Vec<&str> = unicode_segmentation::UnicodeSegmentation::graphemes(b.as_str(), true).collect();
        let d = refdist(&ac, &bc, swap, sp); let r = d[ac.len()][bc.len()];
        let mut why: Option<String> = None;
        let got = distance(a, b, g, swap, sp, false); if got != r as f64 { why = Some(format!("distance {got} vs {r}")); }
        let gn = distance(a, b, g, swap, sp, true); let mx = ac.len().max(bc.len());
        if mx > 0 && (gn - r as f64 / mx as f64).abs() > 1e-12 { why = Some("normalized".into()); }
        if mx == 0 && gn != 0.0 { why = Some("normalized-empty".into()); }
        let pd = prefix_distance(a, b, g, swap, sp, false); let rp = (0..=bc.len()).map(|j| d[ac.len()][j]).min().unwrap(); if pd != rp as f64 { why = Some(format!("prefix {pd} vs {rp}")); }
        let ops = operations(a, b, g, swap, sp);
        if ops.len() != r { why = Some(format!("ops-len {} vs {r}", ops.len())); }
        // apply
        let (mut pa, mut pb) = (0usize, 0usize); let mut out: Vec<&str> = vec![]; let mut ok = true;
        for (op, i, j) in &ops { if *i < pa || *j < pb || i - pa != j - pb { ok = false; break; } out.extend(&ac[pa..*i]); pa = *i; pb = *j;
            match op { EditOperation::Insert => { out.push(bc[*j]); pb += 1; } EditOperation::Delete => { pa += 1; } EditOperation::Replace => { out.push(bc[*j]); pa += 1; pb += 1; } EditOperation::Swap => { if pa + 1 >= ac.len() { ok = false; break; } out.push(ac[pa + 1]); out.push(ac[pa]); pa += 2; pb += 2; } } }
        if ok { out.extend(&ac[pa..]); if out != bc { ok = false; } }
        if !ok { why = Some("ops-apply".into()); }
        if let Some(w) = why { bad += 1; let k = w.split(' ').next().unwrap().to_string(); first.entry(k).or_insert(format!("{a:?} {b:?} swap={swap} sp={sp}: {w} ops={ops:?}")); }
    }}}}
    println!("C12: {n} cases, {bad} bad"); for (k, v) in first { println!("   {k}: {v}"); }
}

// ---------- C16 ----------
fn c16(maxlen: usize) {
    use text_utils::windows::*;
    let alpha = ["a", "ä", "€", "😀", "e\u{301}"]; let (mut n, mut bad) = (0usize, 0usize); let mut first: BTreeMap<String, String> = BTreeMap::new();
    for s in strings(&alpha, maxlen) { if s.is_empty() { continue; } for g in [false, true] { for max in 1..10usize { for ctx in 0..5usize { for kind in 0..2 { n += 1;
        let cfg = if kind == 0 { WindowConfig::Character(max, ctx, g) } else { WindowConfig::Bytes(max, ctx, g) };
        let r = catch_unwind(AssertUnwindSafe(|| windows(&s, &cfg).map(|ws| ws.iter().map(|w| (w.boundaries(), w.byte_boundaries(), w.str.to_string())).collect::<Vec<_>>())));
        let cl: Vec<usize> = if g { unicode_segmentation::UnicodeSegmentation::graphemes(s.as_str(), true).map(|x| x.len()).collect() } else { s.chars().map(|c| c.len_utf8()).collect() };
        let off: Vec<usize> = std::iter::once(0).chain(cl.iter().scan(0, |a, l| { *a += l; Some(*a) })).collect();
        let mut why: Option<String> = None;
        match r { Err(_) => why = Some("panic".into()),
            Ok(Err(_)) => { if max > 2 * ctx && kind == 0 { why = Some("char-err-on-valid".into()); }
                if max > 2 * ctx && kind == 1 { // must be because some char cannot fit: check exists char wider than min window length
                    let wl = max - 2 * ctx; let wl0 = max - ctx; if cl.iter().all(|l| *l <= wl.min(wl0)) { why = Some("byte-err-but-all-fit".into()); } } }
            Ok(Ok(ws)) => { if max <= 2 * ctx { why = Some("ok-on-invalid".into()); } else {
                let mut prev = 0;
                for (k, ((cs_, wst, wen, ce), (bcs, bws, bwe, bce), st)) in ws.iter().enumerate() {
                    if *wst != prev { why = Some("gap".into()); } if wen <= wst { why = Some("empty".into()); } prev = *wen;
                    if !(cs_ <= wst && wen <= ce && *ce <= cl.len()) { why = Some("ctx-not-containing".into()); break; }
                    if (off[*cs_], off[*wst], off[*wen], off[*ce]) != (*bcs, *bws, *bwe, *bce) { why = Some("byte-bounds".into()); }
                    if &s[*bcs..*bce] != st { why = Some("str".into()); }
                    let size = if kind == 0 { ce - cs_ } else { bce - bcs }; if size > max { why = Some(format!("ctx-too-big")); }
                    let _ = k; }
                if prev != cl.len() { why = Some("not-covering".into()); } } } }
        if let Some(w) = why { bad += 1; first.entry(w.clone()).or_insert(format!("{s:?} g={g} max={max} ctx={ctx} kind={kind}")); }
    }}}}}
    println!("C16: {n} cases, {bad} bad"); for (k, v) in first { println!("   {k}: {v}"); }
}

// ---------- C18 ----------
fn lcs(a: &[&str], b: &[&str], ic: bool) -> usize { let eq = |x: &str, y: &str| if ic { x.to_lowercase() == y.to_lowercase() } else { x == y };
    let mut d = vec![vec![0; b.len() + 1]; a.len() + 1]; for i in 1..=a.len() { for j in 1..=b.len() { d[i][j] = if eq(a[i - 1], b[j - 1]) { d[i - 1][j - 1] + 1 } else { d[i - 1][j].max(d[i][j - 1]) }; } } d[a.len()][b.len()] }
fn c18(maxlen: usize) {
    let seqs: Vec<Vec<&str>> = { let al = ["a", "b", "A", "c"]; let mut out: Vec<Vec<&str>> = vec![vec![]]; let mut layer: Vec<Vec<&str>> = vec![vec![]]; for _ in 0..maxlen { let mut nx = vec![]; for s in &layer { for x in al { let mut v = s.clone(); v.push(x); nx.push(v); } } out.extend(nx.iter().cloned()); layer = nx; } out };
    let (mut n, mut bad) = (0usize, 0usize); let mut first: BTreeMap<&'static str, String> = BTreeMap::new();
    for a in &seqs { for b in &seqs { for ic in [false, true] { n += 1; let (sa, sb) = (a.join(" "), b.join("  "));
        let (m, la, lb) = text_utils::text::match_words(&sa, &sb, ic); let mut why = None;
        if la != a.len() || lb != b.len() { why = Some("counts"); }
        if m.len() != lcs(a, b, ic) { why = Some("not-lcs"); }
        if !m.windows(2).all(|w| w[0].0 < w[1].0 && w[0].1 < w[1].1) { why = Some("not-increasing"); }
        if !m.iter().all(|(i, j)| if ic { a[*i].to_lowercase() == b[*j].to_lowercase() } else { a[*i] == b[*j] }) { why = Some("unequal"); }
        if !ic { let (ea, eb) = text_utils::edit::edited_words(&sa, &sb); let ma: HashSet<usize> = m.iter().map(|x| x.0).collect(); let mb: HashSet<usize> = m.iter().map(|x| x.1).collect();
            if ea != (0..la).filter(|i| !ma.contains(i)).collect::<HashSet<_>>() || eb != (0..lb).filter(|i| !mb.contains(i)).collect::<HashSet<_>>() { why = Some("edited"); } }
        if let Some(w) = why { bad += 1; first.entry(w).or_insert(format!("{sa:?} {sb:?} ic={ic} -> {m:?}")); }
    }}}
    println!("C18: {n} cases, {bad} bad"); for (k, v) in first { println!("   {k}: {v}"); }
}

fn main() {
    let a: Vec<String> = std::env::args().collect();
    let l: usize = a.get(2).and_then(|x| x.parse().ok()).unwrap_or(3);
    std::panic::set_hook(Box::new(|_| {}));
    match a[1].as_str() { "c19" => c19(l), "c06" => c06(l), "c11" => c11(l), "c12" => c12(l), "c16" => c16(l), "c18" => c18(l), _ => {} }
}
