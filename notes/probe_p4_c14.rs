// Throwaway probe for C14: seed table -> all decision vectors; oracle via operations/repair.
use rand::{Rng, SeedableRng};
use std::collections::BTreeMap;
use text_utils::data::preprocessing::*;
use text_utils::data::{TextDataInfo, TrainData};
use unicode_segmentation::UnicodeSegmentation;
fn main() {
    let maxw: usize = std::env::args().nth(1).unwrap().parse().unwrap();
    let nmax = 3 * maxw;
    // seed table for p=0.5
    let mut table: Vec<Option<u64>> = vec![None; 1 << nmax]; let mut found = 0; let mut seed = 0u64;
    while found < table.len() { let mut rng = rand_chacha::ChaCha8Rng::seed_from_u64(seed); let mut v = 0usize; for i in 0..nmax { let r: f64 = rng.random(); if r < 0.5 { v |= 1 << i; } } if table[v].is_none() { table[v] = Some(seed); found += 1; } seed += 1; }
    println!("seed table: {} vectors, scanned {seed} seeds", table.len());
    let alpha = ["a", "ä", "e\u{301}"];
    let seqs = { let mut out: Vec<Vec<&str>> = vec![]; let mut layer: Vec<Vec<&str>> = vec![vec![]]; for _ in 0..maxw { let mut nx = vec![]; for s in &layer { for x in alpha { let mut v = s.clone(); v.push(x); nx.push(v); } } out.extend(nx.iter().cloned()); layer = nx; } out };
    let (mut n, mut bad) = (0usize, 0usize); let mut first: BTreeMap<String, (usize, String)> = BTreeMap::new(); let mut distinct = 0usize;
    for g in [false, true] { let f = preprocessing(PreprocessingFnConfig::WhitespaceCorruption(Part::Input, 0.5, 0.5, g));
        for w in &seqs { let k = w.len() - 1; for gv in 0..(1u32 << k) {
            let mut text = String::new(); for (i, c) in w.iter().enumerate() { text.push_str(c); if i < k && gv >> i & 1 == 1 { text.push(' '); } }
            let nch = if g { text.graphemes(true).count() } else { text.chars().count() };
            let mut outs = std::collections::BTreeSet::new();
            for v in 0..(1usize << nch) { n += 1; // decision vector v on first nch draws; pad upper bits 0
                let seed = table[v].unwrap(); // vector with upper bits zero exists in table
                let info = TextDataInfo { seed, ..Default::default() };
                let (d, _) = f(TrainData::new(text.clone(), None), info.clone()).unwrap();
                let dbg = format!("{d:?}"); // TrainData { input: "..", target: ".." }
                let (d2, _) = f(TrainData::new(text.clone(), None), info).unwrap();
                let inp = dbg.split("input: ").nth(1).unwrap().split(", target: ").next().unwrap(); let inp: String = serde_unquote(inp);
                let tgt = dbg.split(", target: ").nth(1).unwrap().trim_end_matches(" }"); let tgt: String = serde_unquote(tgt);
                outs.insert(inp.clone());
                let nw = |x: &str| x.chars().filter(|c| !c.is_whitespace()).collect::<String>();
                let mut why = None;
                if format!("{d2:?}") != dbg { why = Some("nondet"); }
                if tgt != text { why = Some("target-changed"); }
                if nw(&inp) != nw(&text) { why = Some("content"); }
                if inp != inp.split_whitespace().collect::<Vec<_>>().join(" ") { why = Some("not-clean"); }
                match text_utils::whitespace::operations(&inp, &tgt, g) { Err(_) => why = Some("ops-err"), Ok(ops) => { let nc = if g { inp.graphemes(true).count() } else { inp.chars().count() }; if ops.len() != nc { why = Some("ops-len"); } if text_utils::whitespace::repair(&inp, &ops, g).ok().as_deref() != Some(tgt.as_str()) { why = Some("repair"); } } }
                if let Some(wy) = why { bad += 1; first.entry(wy.to_string()).or_insert((0, format!("{text:?} g={g} v={v:b} -> {inp:?}"))).0 += 1; }
            }
            distinct += outs.len();
            // expected number of distinct outputs: each space independently kept/deleted; each non-first char whose predecessor is non-ws may get a space
            let spaces = gv.count_ones() as usize; let insertable = (1..w.len()).filter(|i| gv >> (i - 1) & 1 == 0).count(); 
            if outs.len() != 1 << (spaces + insertable) { bad += 1; first.entry("coverage".into()).or_insert((0, format!("{text:?} g={g} outs={} expected={}", outs.len(), 1 << (spaces + insertable)))).0 += 1; }
        }}}
    println!("C14: {n} cases, {bad} bad, distinct outputs {distinct}"); for (k, v) in first { println!("   {k}: {} e.g. {}", v.0, v.1); }
}
fn serde_unquote(s: &str) -> String { // Rust Debug string -> String (good enough for this alphabet)
    let inner = &s[1..s.len() - 1]; let mut out = String::new(); let mut it = inner.chars().peekable();
    while let Some(c) = it.next() { if c == '\\' { match it.next().unwrap() { 'u' => { it.next(); let mut h = String::new(); while let Some(&d) = it.peek() { it.next(); if d == '}' { break; } h.push(d); } out.push(char::from_u32(u32::from_str_radix(&h, 16).unwrap()).unwrap()); } 'n' => out.push('\n'), 't' => out.push('\t'), x => out.push(x) } } else { out.push(c); } }
    out
}
