// Throwaway calibration prototype of Engine B: CHESS-style controlled scheduler over a copy of Pipe.
use std::collections::HashSet;
use std::sync::atomic::{AtomicUsize, Ordering};
use std::sync::mpsc::{sync_channel, Receiver};
use std::sync::{Arc, Condvar, Mutex};
use std::thread::Builder;
use std::time::Instant;

#[derive(Clone, Copy, Debug, PartialEq, Eq, Hash)]
enum Ev { Start, Take, Computed(usize), Spin(usize), Send(usize), Advance(usize), Recv, Done }

#[derive(Default)]
struct St {
    parked: Vec<Option<Ev>>, exited: Vec<bool>, expected: usize,
    running: Option<usize>, last: usize,
    // mirror
    turn: usize, chan: usize, cap: usize, rx_dropped: bool,
    // schedule
    prefix: Vec<usize>, step: usize,
    log: Vec<(usize, usize, bool, usize)>, // (n_enabled, chosen_pos, current_enabled, chosen tid)
    deadlock: bool, swap_before_send: bool,
    states: Vec<u64>,
}
struct Ctl { st: Mutex<St>, cv: Condvar }
thread_local! { static TID: std::cell::Cell<usize> = std::cell::Cell::new(usize::MAX); }

impl Ctl {
    fn enabled(st: &St, t: usize) -> bool {
        if st.exited[t] { return false; }
        match st.parked[t] { None => false,
            Some(Ev::Spin(i)) => st.turn == i,
            Some(Ev::Send(_)) => st.chan < st.cap || st.rx_dropped,
            Some(Ev::Recv) => st.chan > 0 || (1..st.expected).all(|w| st.exited[w]),
            Some(_) => true }
    }
    fn decide(&self, st: &mut St, _caller: usize) {
        let cur = st.last;
        // only when every live thread is parked
        if st.parked.len() < st.expected { return; }
        for t in 0..st.expected { if !st.exited[t] && st.parked[t].is_none() { return; } }
        let mut en: Vec<usize> = vec![];
        if Self::enabled(st, cur) { en.push(cur); }
        for t in 0..st.expected { if t != cur && Self::enabled(st, t) { en.push(t); } }
        if en.is_empty() {
            if (0..st.expected).all(|t| st.exited[t]) { return; }
            st.deadlock = true; st.running = Some(usize::MAX); self.cv.notify_all(); return;
        }
        let pos = if st.step < st.prefix.len() { st.prefix[st.step] } else { 0 };
        assert!(pos < en.len(), "replay divergence");
        let cur_en = en[0] == cur;
        st.log.push((en.len(), pos, cur_en, en[pos]));
        st.step += 1;
        let t = en[pos];
        st.parked[t] = None; // it will run
        st.running = Some(t);
        self.cv.notify_all();
    }
    fn point(&self, ev: Ev) {
        let me = TID.with(|t| t.get());
        let mut st = self.st.lock().unwrap();
        while st.parked.len() <= me { st.parked.push(None); st.exited.push(false); }
        st.parked[me] = Some(ev);
        if st.running == Some(me) { st.running = None; st.last = me; }
        if st.running.is_none() { self.decide(&mut st, me); }
        while st.running != Some(me) { if st.deadlock { drop(st); loop { std::thread::park(); } } st = self.cv.wait(st).unwrap(); }
    }
    fn exit(&self) {
        let me = TID.with(|t| t.get());
        let mut st = self.st.lock().unwrap();
        st.exited[me] = true; st.parked[me] = Some(Ev::Done); st.running = None; st.last = me;
        self.decide(&mut st, me);
    }
}
struct Guard(Arc<Ctl>);
impl Drop for Guard { fn drop(&mut self) { self.0.exit(); } }

fn run_once(w: usize, n: usize, prefix: &[usize], swap_before_send: bool) -> (Vec<(usize, usize, bool, usize)>, Vec<usize>, bool) {
    let ctl = Arc::new(Ctl { st: Mutex::new(St { expected: w + 1, cap: w, prefix: prefix.to_vec(), swap_before_send, ..Default::default() }), cv: Condvar::new() });
    {   let mut st = ctl.st.lock().unwrap(); st.parked = vec![None; w + 1]; st.exited = vec![false; w + 1]; st.running = Some(0); }
    TID.with(|t| t.set(0));
    let inner = Arc::new(Mutex::new((0..n).enumerate()));
    let (tx, rx) = sync_channel::<usize>(w);
    let send_next = Arc::new(AtomicUsize::new(0));
    for th in 0..w {
        let inner = inner.clone(); let tx = tx.clone(); let send_next = send_next.clone(); let c = ctl.clone();
        Builder::new().spawn(move || {
            TID.with(|t| t.set(th + 1));
            let _g = Guard(c.clone());
            c.point(Ev::Start);
            loop {
                c.point(Ev::Take);
                let Some((idx, data)) = inner.lock().unwrap().next() else { return; };
                let item = data * 10 + 1;
                c.point(Ev::Computed(idx));
                while send_next.load(Ordering::SeqCst) != idx { c.point(Ev::Spin(idx)); }
                if swap_before_send {
                    c.point(Ev::Advance(idx)); send_next.swap(idx + 1, Ordering::SeqCst); c.st.lock().unwrap().turn = idx + 1;
                    c.point(Ev::Send(idx)); let r = tx.send(item); { let mut s = c.st.lock().unwrap(); if r.is_ok() { s.chan += 1; } }
                    if r.is_err() { return; }
                } else {
                    c.point(Ev::Send(idx)); let r = tx.send(item); { let mut s = c.st.lock().unwrap(); if r.is_ok() { s.chan += 1; } }
                    c.point(Ev::Advance(idx)); send_next.swap(idx + 1, Ordering::SeqCst); c.st.lock().unwrap().turn = idx + 1;
                    if r.is_err() { return; }
                }
            }
        }).unwrap();
    }
    drop(tx);
    let mut out = vec![];
    let rx: Receiver<usize> = rx;
    loop {
        ctl.point(Ev::Recv);
        if ctl.st.lock().unwrap().deadlock { break; }
        match rx.recv() { Ok(v) => { ctl.st.lock().unwrap().chan -= 1; out.push(v); } Err(_) => break }
    }
    // consumer done: hand over until all exited
    { let mut st = ctl.st.lock().unwrap(); st.exited[0] = true; st.parked[0] = Some(Ev::Done); st.running = None; st.last = 0; ctl.decide(&mut st, 0); }
    // wait for all workers to exit
    loop { let st = ctl.st.lock().unwrap(); if (0..=w).all(|t| st.exited[t]) || st.deadlock { break; } drop(st); std::thread::yield_now(); }
    let st = ctl.st.lock().unwrap();
    (st.log.clone(), out, st.deadlock)
}

fn main() {
    let a: Vec<String> = std::env::args().collect();
    let w: usize = a[1].parse().unwrap(); let n: usize = a[2].parse().unwrap(); let bound: usize = a[3].parse().unwrap();
    let mutant = a.get(4).map(|s| s == "mut").unwrap_or(false);
    let expect: Vec<usize> = (0..n).map(|x| x * 10 + 1).collect();
    let t0 = Instant::now();
    let mut stack: Vec<Vec<usize>> = vec![vec![]];
    let (mut execs, mut maxdepth, mut bad) = (0usize, 0usize, 0usize);
    let mut outcomes: HashSet<Vec<usize>> = HashSet::new();
    while let Some(prefix) = stack.pop() {
        let (log, out, dl) = run_once(w, n, &prefix, mutant);
        execs += 1; maxdepth = maxdepth.max(log.len());
        if out != expect || dl { bad += 1; if bad == 1 { println!("VIOLATION schedule={:?} out={:?} deadlock={}", log.iter().map(|l| l.3).collect::<Vec<_>>(), out, dl); } }
        outcomes.insert(out);
        // preemptions before each step
        let mut pre = 0usize;
        for i in 0..log.len() {
            let (nen, pos, cur_en, _) = log[i];
            if i >= prefix.len() {
                for alt in 1..nen {
                    let cost = pre + if cur_en { 1 } else { 0 };
                    if cost <= bound { let mut p: Vec<usize> = log[..i].iter().map(|l| l.1).collect(); p.push(alt); stack.push(p); }
                }
            }
            if cur_en && pos != 0 { pre += 1; }
        }
    }
    println!("W={w} N={n} bound={bound} mutant={mutant}: executions={execs} maxdepth={maxdepth} violations={bad} distinct_outputs={} wall={:.2}s ({:.0} exec/s)", outcomes.len(), t0.elapsed().as_secs_f64(), execs as f64 / t0.elapsed().as_secs_f64());
}
