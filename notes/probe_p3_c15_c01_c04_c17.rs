// Throwaway oracle probes, part 3 (design phase): C15 (scripted RNG), C14 (seed table), C01/C04/C17.
use std::borrow::Cow;
use std::collections::{BTreeMap, BTreeSet, HashMap, HashSet};
use std::panic::{catch_unwind, AssertUnwindSafe};
use text_utils::corrupt::*;
use text_utils::tokenization::*;
use unicode_segmentation::UnicodeSegmentation;
use rand::RngCore;

fn strings(alpha: &[&str], maxlen: usize) -> Vec<String> {
    let mut out = vec![String::new()]; let mut layer = vec![String::new()];
    for _ in 0..maxlen { let mut next = vec![]; for s in &layer { for a in alpha { next.push(format!("{s}{a}")); } } out.extend(next.iter().cloned()); layer = next; }
    out
}
struct Script { vals: Vec<u64>, pos: usize }
impl RngCore for Script {
    fn next_u32(&mut self) -> u32 { (self.next_u64() >> 32) as u32 }
    fn next_u64(&mut self) -> u64 { let v = self.vals.get(self.pos).copied().unwrap_or(0); self.pos += 1; v }
    fn fill_bytes(&mut self, d: &mut [u8]) { for b in d { *b = 0; } }
}
fn grid(k: u64) -> Vec<u64> { (0..k).map(|i| ((i as u128 * (1u128 << 64)) / k as u128) as u64).collect() }

fn c15(maxlen: usize) {
    let alpha = ["a", "b", "ä", "e\u{301}"]; let g = true;
    // context tables
    let mut ins: HashMap<InsertContext, EditsAndWeights> = HashMap::new(); let mut rep: HashMap<ReplaceContext, EditsAndWeights> = HashMap::new();
    let ctxs = ["<bow>", "<eow>", "a", "b", "ä", "e\u{301}"];
    for p in ctxs { for n in ctxs { ins.insert((Cow::Borrowed(p), Cow::Borrowed(n)), (vec!["x".into(), "yz".into()], vec![1.0, 1.0]));
        for c in alpha { rep.insert((Cow::Borrowed(p), Cow::Borrowed(c), Cow::Borrowed(n)), (vec!["x".into(), "".into(), "yz".into()], vec![1.0, 1.0, 1.0])); } } }
    let insert = InsertEdits { insertions: ins }; let replace = ReplaceEdits { replacements: rep };
    fn cd(_: &str) -> bool { true } fn csw(_: &str, _: &str) -> bool { true }
    let swap = SwapEdits { can_swap: csw };
    let gr = grid(6);
    let (mut n, mut bad) = (0usize, 0usize); let mut first: BTreeMap<String, (usize, String)> = BTreeMap::new(); let mut outcomes_total = 0usize;
    for w in strings(&alpha, maxlen) { let chars: Vec<&str> = w.graphemes(true).collect(); let len = chars.len();
        for kinds in 1..16u32 { for fd in [false, true] { let delete = DeleteEdits { full_delete: fd, can_delete: cd as fn(&str) -> bool };
            for ex in 0..(1u32 << len) { let excl: HashSet<usize> = (0..len).filter(|i| ex >> i & 1 == 1).collect();
                let mut outs: BTreeSet<(String, Vec<usize>)> = BTreeSet::new();
                for r0 in &gr { for r1 in &gr { for r2 in &gr { n += 1;
                    let mut rng = Script { vals: vec![*r0, *r1, *r2], pos: 0 };
                    let r = catch_unwind(AssertUnwindSafe(|| edit_word(&w, g, &mut rng, if kinds & 1 != 0 { Some(&insert) } else { None }, if kinds & 2 != 0 { Some(&delete) } else { None }, if kinds & 4 != 0 { Some(&replace) } else { None }, if kinds & 8 != 0 { Some(&swap) } else { None }, Some(excl.clone()))));
                    let mut why: Option<String> = None;
                    match r { Err(_) => why = Some("panic".into()), Ok((nw, nex)) => {
                        let nchars: Vec<&str> = nw.graphemes(true).collect(); let mut ex2: Vec<usize> = nex.iter().copied().collect(); ex2.sort(); outs.insert((nw.clone(), ex2.clone()));
                        if nex.iter().any(|i| *i >= nchars.len()) { why = Some("excl-out-of-range".into()); }
                        // classify edit: find which single edit
                        let mut allowed = false; let mut exp_ex: Option<HashSet<usize>> = None;
                        if nw == w && nex == excl { allowed = true; exp_ex = Some(excl.clone()); }
                        if !allowed && kinds & 1 != 0 { for pos in 0..=len { for s in ["x", "yz"] { let cand = format!("{}{}{}", chars[..pos].concat(), s, chars[pos..].concat()); if cand == nw { let l = s.graphemes(true).count(); let e: HashSet<usize> = excl.iter().map(|i| if *i >= pos { i + l } else { *i }).chain(pos..pos + l).collect(); if e == nex { allowed = true; exp_ex = Some(e); } } } } }
                        if !allowed && kinds & 2 != 0 { for pos in 0..len { if excl.contains(&pos) { continue; } if !fd && len <= 1 { continue; } let cand = format!("{}{}", chars[..pos].concat(), chars[pos + 1..].concat()); if cand == nw { let e: HashSet<usize> = excl.iter().map(|i| if *i > pos { i - 1 } else { *i }).collect(); if e == nex { allowed = true; exp_ex = Some(e); } } } }
                        if !allowed && kinds & 4 != 0 { for pos in 0..len { if excl.contains(&pos) { continue; } for s in ["x", "", "yz"] { let cand = format!("{}{}{}", chars[..pos].concat(), s, chars[pos + 1..].concat()); if cand == nw { let l = s.graphemes(true).count(); let e: HashSet<usize> = excl.iter().map(|i| if *i > pos { i + l - 1 } else { *i }).chain(pos..pos + l).collect(); if e == nex { allowed = true; exp_ex = Some(e); } } } } }
                        if !allowed && kinds & 8 != 0 && len > 1 { for pos in 0..len - 1 { if excl.contains(&pos) || excl.contains(&(pos + 1)) { continue; } let cand = format!("{}{}{}{}", chars[..pos].concat(), chars[pos + 1], chars[pos], chars[pos + 2..].concat()); if cand == nw { let e: HashSet<usize> = excl.iter().copied().chain([pos, pos + 1]).collect(); if e == nex { allowed = true; exp_ex = Some(e); } } } }
                        let _ = exp_ex;
                        if !allowed && why.is_none() { why = Some(format!("not-allowed")); }
                        if why.is_some() { why = Some(format!("{} -> {nw:?} {ex2:?}", why.unwrap())); } } }
                    if let Some(wy) = why { bad += 1; let k = wy.split(' ').next().unwrap().to_string(); let e = first.entry(k).or_insert((0, format!("{w:?} kinds={kinds:04b} fd={fd} excl={excl:?} rng=({r0},{r1},{r2}): {wy}"))); e.0 += 1; }
                }}}
                outcomes_total += outs.len();
    }}}}
    println!("C15: {n} calls, {bad} bad, distinct outcomes summed {outcomes_total}"); for (k, v) in first { println!("   {k}: {} e.g. {}", v.0, v.1); }
}

fn c01(maxlen: usize) {
    let alpha = ["a", " ", "ä", "😀", "\u{301}", "\r", "\n", "<pad>", "<pa", ">", "<"]; let (mut n, mut bad) = (0usize, 0usize); let mut first: BTreeMap<String, (usize, String)> = BTreeMap::new();
    let specials = ["<unk>", "<bos>", "<eos>", "<pad>"];
    for g in [false, true] { for groups in [ByteGroups::Bytes, ByteGroups::CodePoints] { for pad in [None, Some(128usize)] { for (pfx, sfx) in [(vec![], vec![]), (vec!["<bos>".to_string()], vec!["<eos>".to_string()]), (vec!["<bos>".to_string(), "<bos>".into()], vec!["<eos>".to_string(), "<pad>".into()])] {
        let sc = SpecialConfig { pad: "<pad>".into(), tokens: specials.iter().map(|s| s.to_string()).collect(), prefix: pfx.clone(), suffix: sfx.clone() };
        let tok = ByteTokenizer::new(ByteTokenizerConfig { use_graphemes: g, pad_to_multiple_of: pad, groups: groups.clone(), aggregation: GroupAggregation::Mean }, sc.clone()).unwrap();
        // C04 part
        let vs = tok.vocab_size(); let vocab = tok.get_vocab().unwrap(); let mut why4 = None;
        if vocab.len() != vs { why4 = Some("vocab-len"); }
        for id in 0..(vs as u32 + 8) { let t = tok.id_to_token(id); if (id as usize) < vs { if t.as_ref() != vocab.get(id as usize) { why4 = Some("id_to_token"); } if let Some(Ok(st)) = t.map(String::from_utf8) { if tok.token_to_id(&st) != Some(id) { why4 = Some("token_to_id"); } } } else if t.is_some() { why4 = Some("id-above"); } }
        if let Some(w) = why4 { bad += 1; first.entry(format!("C04 {w}")).or_insert((0, format!("g={g} pad={pad:?}"))).0 += 1; }
        let (np, ns) = (pfx.len(), sfx.len());
        for s in strings(&alpha, maxlen) { for ign in [false, true] { n += 1;
            let t = tok.tokenize(&s, ign).unwrap(); let ids = t.token_ids;
            // reference
            let mut r: Vec<u32> = vec![]; let mut ngroups = 0usize; let mut i = 0; let b = s.as_bytes(); let mut seg_start = 0;
            let mut segs: Vec<(bool, &str)> = vec![];
            while i < b.len() { let mut m = None; if !ign { for sp in specials { if s[i..].starts_with(sp) { m = Some(sp); } } } if let Some(sp) = m { if seg_start < i { segs.push((false, &s[seg_start..i])); } segs.push((true, sp)); i += sp.len(); seg_start = i; } else { i += 1; while !s.is_char_boundary(i) { i += 1; } } }
            if seg_start < b.len() { segs.push((false, &s[seg_start..])); }
            for (sp, x) in &segs { if *sp { r.push(tok.token_to_id(x).unwrap()); ngroups += 1; } else { r.extend(x.bytes().map(|y| y as u32)); ngroups += if g { x.graphemes(true).count() } else { x.chars().count() }; } }
            let exp: Vec<u32> = tok.prefix_token_ids().iter().copied().chain(r).chain(tok.suffix_token_ids().iter().copied()).collect();
            let mut why: Option<&str> = None;
            if ids != exp { why = Some("ids"); }
            if ids.len() >= np + ns && tok.de_tokenize(&ids[np..ids.len() - ns], false).ok().as_deref() != Some(s.as_str()) { why = Some("roundtrip"); }
            if let TokenizationInfo::TokenGroups(gm) = &t.info { let (gs, _) = gm.values().next().unwrap(); if gs.iter().map(|x| x.len()).sum::<usize>() != ids.len() { why = Some("group-sum"); } if gs.len() != np + ns + ngroups { why = Some("group-count"); }
                let grouping = (gs.clone(), GroupAggregation::Mean); if catch_unwind(AssertUnwindSafe(|| token_groups_to_sparse_coo_matrix(&[&grouping], &[ids.len()]).is_ok())).ok() != Some(true) { why = Some("sparse-panic"); } } else { why = Some("no-groups"); }
            if let Some(w) = why { bad += 1; first.entry(w.to_string()).or_insert((0, format!("{s:?} g={g} ign={ign} pfx={pfx:?} -> {ids:?} exp={exp:?}"))).0 += 1; }
        }}
    }}}}
    // char tokenizer
    for g in [false, true] { let tok = CharTokenizer::new(CharTokenizerConfig { use_graphemes: g, unk_token: "<unk>".into() }, SpecialConfig::default()).unwrap();
        let vs = tok.vocab_size(); let vocab = tok.get_vocab().unwrap(); if vocab.len() != vs { bad += 1; first.entry("C04 char vocab-len".into()).or_insert((0, String::new())).0 += 1; }
        for id in 0..(vs as u32 + 8) { let t = tok.id_to_token(id); if (id as usize) < vs { if t.as_ref() != vocab.get(id as usize) { bad += 1; first.entry("C04 char id_to_token".into()).or_insert((0, format!("{id}"))).0 += 1; } else if let Some(Ok(st)) = t.map(String::from_utf8) { if tok.token_to_id(&st) != Some(id) { bad += 1; first.entry("C04 char token_to_id".into()).or_insert((0, format!("{id} {st:?}"))).0 += 1; } } } else if t.is_some() { bad += 1; } }
        for s in strings(&["a", "Z", "\"", " ", "ä", "e\u{301}", "<pad>", "<"], maxlen) { for ign in [false, true] { n += 1; let ids = tok.tokenize(&s, ign).unwrap().token_ids;
            let mut cnt = 0; let mut expunk = vec![];
            let b = s.as_bytes(); let mut i = 0; let mut seg_start = 0; let mut segs: Vec<(bool, &str)> = vec![];
            while i < b.len() { let mut m = None; if !ign { for sp in ["<unk>", "<bos>", "<eos>", "<pad>"] { if s[i..].starts_with(sp) { m = Some(sp); } } } if let Some(sp) = m { if seg_start < i { segs.push((false, &s[seg_start..i])); } segs.push((true, sp)); i += sp.len(); seg_start = i; } else { i += 1; while !s.is_char_boundary(i) { i += 1; } } }
            if seg_start < b.len() { segs.push((false, &s[seg_start..])); }
            for (sp, x) in &segs { if *sp { cnt += 1; expunk.push(*x == "<unk>"); } else { let cl: Vec<&str> = if g { x.graphemes(true).collect() } else { x.char_indices().map(|(k, c)| &x[k..k + c.len_utf8()]).collect() }; for c in &cl { cnt += 1; expunk.push(c.chars().count() > 1 || !c.is_ascii()); } } }
            let mut why = None; if ids.len() != cnt { why = Some("char-count"); } else if ids.iter().zip(&expunk).any(|(i, u)| (*i == tok.unk_token_id()) != *u) { why = Some("char-unk"); }
            if s.is_ascii() && ign && tok.de_tokenize(&ids, true).unwrap() != s { why = Some("char-roundtrip"); }
            if let Some(w) = why { bad += 1; first.entry(w.to_string()).or_insert((0, format!("{s:?} g={g} ign={ign} ids={ids:?} cnt={cnt}"))).0 += 1; } } } }
    println!("C01/C04/C17: {n} cases, {bad} bad"); for (k, v) in first { println!("   {k}: {} e.g. {}", v.0, v.1); }
}

fn main() {
    let a: Vec<String> = std::env::args().collect(); let l: usize = a.get(2).and_then(|x| x.parse().ok()).unwrap_or(3);
    if a[1] == "c15" { std::panic::set_hook(Box::new(|_| {})); }
    match a[1].as_str() { "c15" => c15(l), "c01" => c01(l), _ => {} }
}
