// Throwaway extension of the Engine B prototype: idle consumer / drop scenarios (C09), Pipe and Buffered copies.
use std::collections::BTreeSet;
use std::sync::atomic::{AtomicUsize, Ordering};
use std::sync::mpsc::sync_channel;
use std::sync::{Arc, Condvar, Mutex};
use std::thread::Builder;
use std::time::Instant;

#[derive(Clone, Copy, Debug, PartialEq, Eq, Hash)]
enum Ev { Start, Take, Computed(usize), Spin(usize), Send(usize), Advance(usize), Recv, Quiesce, BufPull, BufSend, Done }
#[derive(Default)]
struct St { parked: Vec<Option<Ev>>, exited: Vec<bool>, expected: usize, running: Option<usize>, last: usize,
    turn: usize, chan: usize, cap: usize, rx_dropped: bool, prefix: Vec<usize>, step: usize,
    log: Vec<(usize, usize, bool, usize)>, stuck: bool, horizon: usize, over_horizon: bool, max_look: usize, consumed: usize }
struct Ctl { st: Mutex<St>, cv: Condvar, pulled: AtomicUsize }
thread_local! { static TID: std::cell::Cell<usize> = std::cell::Cell::new(usize::MAX); }
impl Ctl {
    fn en_basic(st: &St, t: usize) -> bool { if st.exited[t] { return false; } match st.parked[t] { None => false,
        Some(Ev::Spin(i)) => st.turn == i, Some(Ev::Send(_)) | Some(Ev::BufSend) => st.chan < st.cap || st.rx_dropped,
        Some(Ev::Recv) => st.chan > 0 || (1..st.expected).all(|w| st.exited[w]), Some(Ev::Quiesce) => false, Some(_) => true } }
    fn decide(&self, st: &mut St) {
        for t in 0..st.expected { if !st.exited[t] && st.parked[t].is_none() { return; } }
        let look = self.pulled.load(Ordering::SeqCst) - st.consumed; st.max_look = st.max_look.max(look);
        let cur = st.last; let mut en: Vec<usize> = vec![];
        if Self::en_basic(st, cur) { en.push(cur); }
        for t in 0..st.expected { if t != cur && Self::en_basic(st, t) { en.push(t); } }
        if en.is_empty() { if let Some(q) = (0..st.expected).find(|t| !st.exited[*t] && st.parked[*t] == Some(Ev::Quiesce)) { en.push(q); } }
        if en.is_empty() { if (0..st.expected).all(|t| st.exited[t]) { return; } st.stuck = true; st.running = Some(usize::MAX); self.cv.notify_all(); return; }
        if st.step >= st.horizon { st.over_horizon = true; st.stuck = true; st.running = Some(usize::MAX); self.cv.notify_all(); return; }
        let pos = if st.step < st.prefix.len() { st.prefix[st.step] } else { 0 };
        assert!(pos < en.len(), "replay divergence");
        st.log.push((en.len(), pos, en[0] == cur && Self::en_basic(st, cur), en[pos])); st.step += 1;
        let t = en[pos]; st.parked[t] = None; st.running = Some(t); self.cv.notify_all();
    }
    fn point(&self, ev: Ev) { let me = TID.with(|t| t.get()); let mut st = self.st.lock().unwrap();
        st.parked[me] = Some(ev); if st.running == Some(me) { st.running = None; st.last = me; }
        if st.running.is_none() { self.decide(&mut st); }
        while st.running != Some(me) { if st.stuck { if me == 0 { return; } drop(st); loop { std::thread::park(); } } st = self.cv.wait(st).unwrap(); } }
    fn exit(&self) { let me = TID.with(|t| t.get()); let mut st = self.st.lock().unwrap(); st.exited[me] = true; st.parked[me] = Some(Ev::Done); st.running = None; st.last = me; self.decide(&mut st); }
}
struct Guard(Arc<Ctl>); impl Drop for Guard { fn drop(&mut self) { self.0.exit(); } }
struct Up { n: usize, c: Arc<Ctl>, i: usize }
impl Iterator for Up { type Item = usize; fn next(&mut self) -> Option<usize> { if self.i < self.n { self.i += 1; self.c.pulled.fetch_add(1, Ordering::SeqCst); Some(self.i - 1) } else { None } } }

struct Res { log: Vec<(usize, usize, bool, usize)>, stuck: bool, over: bool, max_look: usize, pulled: usize, idle_look: usize }
fn run(kind: &str, w: usize, n: usize, k: usize, fixed: bool, prefix: &[usize]) -> Res {
    let nthreads = if kind == "pipe" { w } else { 1 };
    let ctl = Arc::new(Ctl { st: Mutex::new(St { expected: nthreads + 1, cap: w, prefix: prefix.to_vec(), horizon: 400, parked: vec![None; nthreads + 1], exited: vec![false; nthreads + 1], running: Some(0), ..Default::default() }), cv: Condvar::new(), pulled: AtomicUsize::new(0) });
    TID.with(|t| t.set(0));
    let (tx, rx) = sync_channel::<usize>(w);
    let mut tx = Some(tx);
    if kind == "pipe" {
        let tx = tx.take().unwrap();
        let inner = Arc::new(Mutex::new(Up { n, c: ctl.clone(), i: 0 }.enumerate())); let send_next = Arc::new(AtomicUsize::new(0));
        for th in 0..w { let inner = inner.clone(); let tx = tx.clone(); let send_next = send_next.clone(); let c = ctl.clone();
            Builder::new().spawn(move || { TID.with(|t| t.set(th + 1)); let _g = Guard(c.clone()); c.point(Ev::Start);
                loop { c.point(Ev::Take); let Some((idx, data)) = inner.lock().unwrap().next() else { return; }; let item = data * 10 + 1;
                    c.point(Ev::Computed(idx)); while send_next.load(Ordering::SeqCst) != idx { c.point(Ev::Spin(idx)); }
                    c.point(Ev::Send(idx)); let r = tx.send(item); if r.is_ok() { c.st.lock().unwrap().chan += 1; }
                    if !fixed && r.is_err() { return; } // mutant: return before advancing the turn
                    c.point(Ev::Advance(idx)); send_next.swap(idx + 1, Ordering::SeqCst); c.st.lock().unwrap().turn = idx + 1;
                    if r.is_err() { return; } } }).unwrap(); }
    } else {
        let tx = tx.take().unwrap(); let c = ctl.clone(); let iter = Up { n, c: ctl.clone(), i: 0 };
        Builder::new().spawn(move || { TID.with(|t| t.set(1)); let _g = Guard(c.clone()); c.point(Ev::Start);
            let mut iter = iter; loop { c.point(Ev::BufPull); let Some(item) = iter.next() else { return; }; c.point(Ev::BufSend); let r = tx.send(item); if r.is_ok() { c.st.lock().unwrap().chan += 1; } if fixed && r.is_err() { return; } } }).unwrap();
    }
    drop(tx);
    let mut got = 0; let mut idle_look = 0;
    for _ in 0..k { ctl.point(Ev::Recv); if ctl.st.lock().unwrap().stuck { break; } match rx.recv() { Ok(_) => { let mut s = ctl.st.lock().unwrap(); s.chan -= 1; s.consumed += 1; got += 1; } Err(_) => break } }
    let _ = got;
    ctl.point(Ev::Quiesce);
    if !ctl.st.lock().unwrap().stuck { let s = ctl.st.lock().unwrap(); idle_look = ctl.pulled.load(Ordering::SeqCst) - s.consumed; drop(s);
        ctl.st.lock().unwrap().rx_dropped = true; drop(rx);
        let mut st = ctl.st.lock().unwrap(); st.exited[0] = true; st.parked[0] = Some(Ev::Done); st.running = None; st.last = 0; ctl.decide(&mut st); }
    loop { let st = ctl.st.lock().unwrap(); if (0..=nthreads).all(|t| st.exited[t]) || st.stuck { break; } drop(st); std::thread::yield_now(); }
    let st = ctl.st.lock().unwrap();
    Res { log: st.log.clone(), stuck: st.stuck, over: st.over_horizon, max_look: st.max_look, pulled: ctl.pulled.load(Ordering::SeqCst), idle_look }
}
fn main() {
    let a: Vec<String> = std::env::args().collect();
    let kind = a[1].as_str(); let w: usize = a[2].parse().unwrap(); let k: usize = a[3].parse().unwrap(); let bound: usize = a[4].parse().unwrap(); let fixed = a.get(5).map(|s| s == "fixed").unwrap_or(false);
    let l = 4 * w + 2 * w + 8;
    for n in [l, 2 * l, 1_000_000_000usize] {
        let t0 = Instant::now(); let mut stack: Vec<Vec<usize>> = vec![vec![]]; let (mut execs, mut bad) = (0usize, 0usize); let mut looks = BTreeSet::new(); let mut idles = BTreeSet::new(); let mut maxpulled = 0;
        while let Some(prefix) = stack.pop() {
            let r = run(kind, w, n, k, fixed, &prefix); execs += 1; looks.insert(r.max_look); idles.insert(r.idle_look); maxpulled = maxpulled.max(r.pulled);
            if r.stuck { bad += 1; if bad == 1 { println!("  VIOLATION n={n}: {} after schedule {:?} (pulled {})", if r.over { "horizon exceeded: thread keeps pulling" } else { "deadlock/livelock: threads never exit" }, r.log.iter().map(|l| l.3).collect::<Vec<_>>().iter().take(40).collect::<Vec<_>>(), r.pulled); } if bad >= 1 { break; } }
            let mut pre = 0usize;
            for i in 0..r.log.len() { let (nen, pos, cur_en, _) = r.log[i];
                if i >= prefix.len() { for alt in 1..nen { if pre + usize::from(cur_en) <= bound { let mut p: Vec<usize> = r.log[..i].iter().map(|l| l.1).collect(); p.push(alt); stack.push(p); } } }
                if cur_en && pos != 0 { pre += 1; } }
        }
        println!("{kind} W/cap={w} k={k} bound={bound} fixed={fixed} N={n}: executions={execs} violations={bad} max_lookahead_set={looks:?} idle_lookahead_set={idles:?} max_pulled={maxpulled} wall={:.2}s", t0.elapsed().as_secs_f64());
        if bad > 0 { std::process::exit(1); }
    }
}
