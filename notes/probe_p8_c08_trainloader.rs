// Throwaway probe for C08 against the real TrainLoader through the trial `verif_api` hook.
use std::collections::{BTreeMap, BTreeSet};
use text_utils::data::loading::{BatchLimitType, GenerationStrategy};
use text_utils::data::preprocessing::{Part, PreprocessingFnConfig};
use text_utils::data::postprocessing::PostprocessingFnConfig;
use text_utils::data::task::TrainTaskConfig;
use text_utils::data::verif_api::*;
use text_utils::data::{PostprocessingConfig, PreprocessingConfig, TrainPipelineConfig};
use text_utils::tokenization::*;

#[derive(Clone)]
struct Cfg { files: Vec<String>, strat: GenerationStrategy, threads: u8, buf: usize, bl: usize, blt: BatchLimitType, shuffle: bool, pf: usize, sort: bool, seed: u64, skip: usize, limit: Option<usize>, dist: Option<(usize, usize)>, epoch: usize, ff: usize, pre: usize }
fn pipeline(pre: usize) -> TrainPipelineConfig {
    let tok = TokenizerConfig { tokenize: TokenizeConfig::Byte(ByteTokenizerConfig { use_graphemes: true, pad_to_multiple_of: None, groups: ByteGroups::Bytes, aggregation: GroupAggregation::Mean }), special: SpecialConfig::default() };
    let p = match pre { 0 => PreprocessingFnConfig::None, 1 => PreprocessingFnConfig::WhitespaceCorruption(Part::Input, 0.4, 0.4, true),
        _ => PreprocessingFnConfig::Switch(vec![PreprocessingFnConfig::WhitespaceCorruption(Part::Input, 0.4, 0.4, true), PreprocessingFnConfig::NoWhitespaces(Part::Input, true)], vec![0.5, 0.5]) };
    TrainPipelineConfig { preprocessing: PreprocessingConfig::Global(p), task: TrainTaskConfig::WhitespaceCorrection(true, tok), postprocessing: PostprocessingConfig::Global(PostprocessingFnConfig::None) }
}
type Item = (String, String, Vec<u32>); // (target, input, token ids)
fn run(c: &Cfg) -> anyhow::Result<Vec<Vec<Item>>> {
    let mut l = train_loader(TrainLoaderConfig { files: c.files.clone(), pipeline: pipeline(c.pre), strategy: c.strat, num_threads: c.threads, buffer_size: c.buf, batch_limit: c.bl, batch_limit_type: c.blt, max_length: 512, shuffle: c.shuffle, prefetch_factor: c.pf, sort: c.sort, seed: Some(c.seed), skip: c.skip, limit: c.limit, distributed: c.dist, epoch: c.epoch, fast_forward: c.ff })?;
    let mut out = vec![];
    while let Some(b) = l.next_batch()? { out.push(b.iter().map(|it| (it.data.verif_target().to_string(), it.data.verif_input().to_string(), match &it.input { text_utils::data::TrainTaskInput::SequenceClassification { token_ids, .. } => token_ids.clone(), _ => vec![] })).collect()); }
    Ok(out)
}
fn main() {
    let dir = format!("/dev/shm/p8_{}", std::process::id()); std::fs::create_dir_all(&dir).unwrap();
    let words = ["ab cd e", "fg h ij", "kl mn", "o pq rs t", "uv w"];
    let mut nruns = 0usize; let mut bad = 0usize; let mut first: BTreeMap<String, String> = BTreeMap::new();
    let mut flag = |k: &str, d: String, bad: &mut usize| { *bad += 1; first.entry(k.to_string()).or_insert(d); };
    for (fi, lens) in [vec![3usize], vec![2, 3], vec![0, 2, 1], vec![4, 1]].iter().enumerate() {
        let files: Vec<String> = lens.iter().enumerate().map(|(i, n)| { let p = format!("{dir}/f{fi}_{i}.jsonl"); std::fs::write(&p, (0..*n).map(|k| format!("{{\"input\": \"s{i}l{k} {}\"}}\n", words[(i + k) % 5])).collect::<String>()).unwrap(); p }).collect();
        let total: usize = lens.iter().sum();
        for strat in [GenerationStrategy::Sequential, GenerationStrategy::Interleaved, GenerationStrategy::Weighted] { if matches!(strat, GenerationStrategy::Weighted) && lens.contains(&0) { continue; }
        for seed in [0u64, 7] { for epoch in [0usize, 1] { for pre in 0..3usize {
            let base = Cfg { files: files.clone(), strat, threads: 0, buf: 1, bl: 1, blt: BatchLimitType::BatchSize, shuffle: false, pf: 1, sort: false, seed, skip: 0, limit: None, dist: None, epoch, ff: 0, pre };
            let r: Vec<Item> = run(&base).unwrap().into_iter().flatten().collect(); nruns += 1;
            if r.len() != total { flag("R-len", format!("{lens:?} {:?}", r.len()), &mut bad); }
            // (1) thread/buffer/batch independence
            for threads in [0u8, 1, 2, 3] { for buf in [0usize, 1, 2] { for (bl, blt) in [(1usize, BatchLimitType::BatchSize), (2, BatchLimitType::BatchSize), (40, BatchLimitType::PaddedItemSize)] {
                let c = Cfg { threads, buf, bl, blt, ..base.clone() }; let out = run(&c).unwrap(); nruns += 1;
                if out.iter().flatten().cloned().collect::<Vec<_>>() != r { flag("thread/buffer-dependence", format!("{lens:?} th={threads} buf={buf} bl={bl}"), &mut bad); }
                for (sort, shuffle) in [(true, false), (false, true), (true, true)] { if threads > 1 && buf != 1 { continue; }
                    let c2 = Cfg { sort, shuffle, pf: 2, ..c.clone() }; let o1 = run(&c2).unwrap(); let o2 = run(&Cfg { threads: 0, ..c2.clone() }).unwrap(); nruns += 2;
                    if o1 != o2 { flag("sorted/shuffled thread-dependence", format!("{lens:?} th={threads}"), &mut bad); }
                    let mut a: Vec<Item> = o1.into_iter().flatten().collect(); a.sort(); let mut b = r.clone(); b.sort(); if a != b { flag("sorted/shuffled multiset", format!("{lens:?}"), &mut bad); } } } } }
            // (2) sharding, skip, limit
            for skip in [0usize, 1, 2] { for limit in [None, Some(2usize), Some(3), Some(5)] { for w in 1..=3usize {
                let lo = skip.min(total); let hi = limit.unwrap_or(total).min(total); let exp: Vec<Item> = if lo < hi { r[lo..hi].to_vec() } else { vec![] };
                let mut union: Vec<Item> = vec![]; let mut seen = BTreeSet::new();
                for rank in 0..w { let c = Cfg { skip, limit, dist: Some((rank, w)), threads: 2, ..base.clone() }; let o: Vec<Item> = run(&c).unwrap().into_iter().flatten().collect(); nruns += 1;
                    for it in &o { if !seen.insert(it.0.clone()) { flag("rank-overlap", format!("{lens:?} skip={skip} limit={limit:?} w={w}"), &mut bad); } } 
                    let expr: Vec<Item> = exp.iter().skip(rank).step_by(w).cloned().collect(); if o != expr { flag("rank-stream", format!("{lens:?} skip={skip} limit={limit:?} w={w} rank={rank}: {:?} vs {:?}", o.iter().map(|x| &x.0).collect::<Vec<_>>(), expr.iter().map(|x| &x.0).collect::<Vec<_>>()), &mut bad); }
                    union.extend(o); }
                let mut u = union.clone(); u.sort(); let mut e = exp.clone(); e.sort(); if u != e { flag("rank-union", format!("{lens:?} skip={skip} limit={limit:?} w={w}"), &mut bad); }
                // (3) fast forward
                for k in 0..=exp.len() { let mut un: Vec<Item> = vec![];
                    for rank in 0..w { let c = Cfg { skip, limit, dist: Some((rank, w)), ff: k, threads: 1, ..base.clone() }; let o: Vec<Item> = run(&c).unwrap().into_iter().flatten().collect(); nruns += 1; if w == 1 && o != exp[k..].to_vec() { flag("ff-order", format!("{lens:?} skip={skip} limit={limit:?} k={k}"), &mut bad); } un.extend(o); }
                    un.sort(); let mut e: Vec<Item> = exp[k..].to_vec(); e.sort(); if un != e { flag("ff-union", format!("{lens:?} skip={skip} limit={limit:?} w={w} k={k}"), &mut bad); } }
            }}}
        }}}}
    }
    println!("C08: {nruns} loader runs, {bad} bad"); for (k, v) in first { println!("   {k}: {v}"); }
    std::fs::remove_dir_all(dir).ok();
}
