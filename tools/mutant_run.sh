#!/bin/bash
# usage: tools/mutant_run.sh <patch.diff> <PROP> [quick|thorough]
# Applies a patch to a scratch copy of /repo (never to /repo itself), builds a scratch copy of the
# harness against it and runs one check there. Scratch lives under /tmp/tu_mut and is reused between
# calls (remove it with: tools/mutant_run.sh --clean).
set -u
ROOT=/tmp/tu_mut
if [ "${1:-}" = "--clean" ]; then rm -rf "$ROOT"; exit 0; fi
PATCH=$(readlink -f "$1"); PROP=$2; TIER=${3:-quick}
mkdir -p "$ROOT"
rsync -a --delete --exclude target --exclude .git /repo/ "$ROOT/repo/"
( cd "$ROOT/repo" && patch -p1 --no-backup-if-mismatch -s < "$PATCH" ) || { echo "patch does not apply"; exit 2; }
rsync -a --delete /verif/harness/ "$ROOT/harness/"
sed -i "s#path = \"/repo\"#path = \"$ROOT/repo\"#" "$ROOT/harness/Cargo.toml"
sed -i "s#target-dir = .*#target-dir = \"$ROOT/target\"#" "$ROOT/harness/.cargo/config.toml"
cd /verif
VERIF_HARNESS_DIR=$ROOT/harness VERIF_TARGET_DIR=$ROOT/target VERIF_REPLAY_DIR=$ROOT/replays VERIF_EVIDENCE_DIR=$ROOT/evidence VERIF_RUN_DIR=$ROOT/run ./check "$PROP" "$TIER"
echo "exit=$?"
