#!/usr/bin/env python3
"""Regenerates the seeded-changes table of DESIGN.md section 12.1 (between the SEEDS-TABLE markers)
from /verif/seeded/*/meta.json and check_result.txt."""
import glob, json, os, re
rows = []
for d in sorted(glob.glob('/verif/seeded/*')):
    m = json.load(open(d + '/meta.json'))
    res = open(d + '/check_result.txt').read() if os.path.exists(d + '/check_result.txt') else ''
    clauses = list(dict.fromkeys(l.split('clause=')[1].split(' ')[0] for l in res.splitlines() if 'clause=' in l))
    status = 'exit ' + (re.search(r'exit status: (\d+)', res).group(1) if 'exit status' in res else '?')
    rows.append((m['id'], m['property'], m['summary'], m['needs'], clauses, m.get('history', ''), status))
def cut(s, n):
    s = s.replace('|', '/').replace('\n', ' ')
    return s if len(s) <= n else s[:n - 1] + '…'
out = ['<!-- SEEDS-TABLE-BEGIN -->', f'{len(rows)} kept changes; {sum(1 for r in rows if r[5])} of them were missed (or not reported as a verdict) by the check as it stood when the change arrived and led to a stronger check (`history` in their `meta.json`, summarised below the table).', '',
       '| seed | what was changed | what it needs to manifest | reported by clause(s) |', '|---|---|---|---|']
for (i, p, s, n, c, h, st) in rows:
    out.append(f"| {i} | {cut(s, 240)} | {cut(n, 240)} | {', '.join('`' + x + '`' for x in c) or st}{' — **first missed**' if h else ''} |")
out.append('')
out.append('What the misses taught:')
out.append('')
for (i, p, s, n, c, h, st) in rows:
    if h:
        out.append(f'* **{i}** — {h}')
out.append('<!-- SEEDS-TABLE-END -->')
p = '/verif/DESIGN.md'
s = open(p).read()
a, b = s.index('<!-- SEEDS-TABLE-BEGIN -->'), s.index('<!-- SEEDS-TABLE-END -->') + len('<!-- SEEDS-TABLE-END -->')
open(p, 'w').write(s[:a] + '\n'.join(out) + s[b:])
print(len(rows), 'seeds')
