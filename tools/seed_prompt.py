#!/usr/bin/env python3
"""Prints the prompt given to a fresh sub-agent that seeds a property-breaking change (tools only;
the agent gets nothing from /verif except the property text printed here)."""
import json, sys
pid = sys.argv[1]; wt = sys.argv[2]; out = sys.argv[3]
p = next(json.loads(l) for l in open('/verif/properties.jsonl') if json.loads(l)['id'] == pid)
print(f"""You are a software engineer doing mutation seeding on the Rust library ad-freiburg/text-utils (Rust + PyO3: tokenizers, edit distance, text corruption, metrics, threaded data loader). You have your own scratch git worktree of the repository at {wt} (a detached checkout; work ONLY inside it; never touch /repo, never read or touch anything under /verif).

The library is supposed to satisfy this property:

  {p['id']}: {p['title']}
  {p['statement']}
  Quantified over: {p['quantifier']['text']}

YOUR TASK: produce ONE realistic change to the library source (under {wt}/src) that BREAKS this property while
  (a) the crate still compiles, both plainly and with `--features verif` (the source contains `#[cfg(feature = "verif")]` instrumentation lines and a module src/verif.rs — leave all of those exactly as they are; do not add, remove or move them; your change goes into the ordinary code), and
  (b) the existing test suite still passes completely: `cd {wt} && cargo test --workspace --no-fail-fast --offline` (41 tests; takes about a minute plus build; the network is unavailable, always pass --offline), and
  (c) the breakage needs something SPECIFIC to manifest — a particular thread interleaving, a fault or drop at a particular point, a multi-step sequence of operations, an unusual input or configuration, or two cooperating code sites that each look fine alone. It must NOT be something ordinary use would expose at once (e.g. not "always returns an empty result"). Think of the kind of bug a plausible refactoring or "optimisation" could introduce: an off-by-one at a boundary, a cursor advanced before a reservation, an index computed from the wrong counter, an operation moved outside a lock, state hoisted out of a loop, a tie-break or boundary condition handled differently, a wrong variable after a rename.
  (d) it is a genuine violation of the property as stated (not merely a behaviour change the statement permits).

Also write a DEMONSTRATION: a Rust integration test file (put it at {wt}/tests/seeded_{pid.lower()}.rs; it may use only the crate's public API and std; for schedule-dependent bugs you may force the interleaving with sleeps inside a user-supplied processing function or iterator, or loop until the bad outcome appears with a generous bound) that FAILS with your change and PASSES without it. Verify both: run it with the change; then save your change with `git -C {wt} diff -- src > {out}/patch.diff`, undo it with `git -C {wt} checkout -- src`, run the test again to see it pass, and re-apply it with `git -C {wt} apply {out}/patch.diff`. Do NOT use `git stash`, `git commit`, `git reset` or branch commands (the stash and refs are shared with other people's worktrees). If the bug is a hang, the test must detect it with a timeout (e.g. run the operation in a thread and wait on a channel with recv_timeout) rather than hang itself.

DELIVERABLES, written to {out}/ (create it):
  - patch.diff : `git -C {wt} diff -- src` (only the library change, not the test)
  - demo.rs    : a copy of your demonstration test file
  - meta.json  : {{"property": "{pid}", "summary": "<one sentence: what was changed>", "needs": "<what specific interleaving / input / sequence is needed for it to manifest>", "files": ["src/..."], "test_suite": "<the cargo test result line with the change applied>", "demo_with_change": "<result line>", "demo_without_change": "<result line>"}}

Rules: do not weaken or delete existing tests; do not touch Cargo.toml features; keep the change small (a few lines). Builds use {wt}/target (it will be created; it is large, that is fine). When you are done reply with a short summary of the change, why it breaks the property, what it needs to manifest, and the three verification results. Do not clean up the worktree; I will.""")
