#!/usr/bin/env python3
"""usage: tools/keep_seed.py <tmp seed dir> <seed id, e.g. C06-1>
Copies a confirmed seeded change (patch.diff, demo.rs, meta.json + confirm.log summary) to /verif/seeded/<id>/."""
import json, os, shutil, sys
src, sid = sys.argv[1], sys.argv[2]
dst = os.path.join('/verif/seeded', sid)
os.makedirs(dst, exist_ok=True)
for f in ('patch.diff', 'demo.rs'):
    shutil.copy(os.path.join(src, f), os.path.join(dst, f))
meta = json.load(open(os.path.join(src, 'meta.json')))
log = open(os.path.join(src, 'confirm.log')).read() if os.path.exists(os.path.join(src, 'confirm.log')) else ''
results = [l for l in log.splitlines() if l.startswith('test result')]
meta['id'] = sid
meta['written_by'] = 'fresh sub-agent given only the property text and its own scratch worktree of /repo (tools/seed_prompt.py)'
meta['confirmed_by_main'] = {
    'procedure': 'tools/confirm_seed.sh: fresh worktree of /repo HEAD, git apply patch.diff, cargo test --workspace --no-fail-fast --offline (must pass), cargo build --offline --features verif (must build), demo as tests/seeded_demo.rs (must fail), git checkout -- src, demo again (must pass); worktree removed',
    'test_result_lines': results,
}
json.dump(meta, open(os.path.join(dst, 'meta.json'), 'w'), indent=1, ensure_ascii=False)
print('kept', dst)
