#!/usr/bin/env python3
"""Regenerates /verif/MANIFEST.json from props.json (one entry per claimed property)."""
import json, os, subprocess
V = os.path.dirname(os.path.dirname(os.path.abspath(__file__)))
props = json.load(open(os.path.join(V, "props.json")))
all_ids = [json.loads(l)["id"] for l in open(os.path.join(V, "properties.jsonl"))]
hook_commits = [l.split()[0] for l in subprocess.run(["git", "-C", "/repo", "log", "--format=%H %s"], capture_output=True, text=True).stdout.splitlines() if " verif hooks" in l]
checks = []
for pid in all_ids:
    if pid not in props or not props[pid].get("claimed", True):
        continue
    c = props[pid]
    checks.append({
        "property_id": pid,
        "quick_cmd": f"./check {pid} quick",
        "thorough_cmd": f"./check {pid} thorough",
        "evidence_file": f"evidence/{pid}.json",
        "replay_cmd_template": "./check replay {path}",
        "engine": "engine_b" if c.get("engine") == "B" else ("engine_a+engine_b" if c.get("engine") == "AB" else "engine_a"),
        "level_claimed": {"category": "model_checking", "text": c["level_text"], "design_ref": c.get("design_ref", f"DESIGN.md section 5, {pid}")},
        "level_note": c["level_note"],
        "technique": c["technique"],
    })
na = [{"property_id": pid, "reason": props.get(pid, {}).get("na_reason", "check not built yet (work in progress); will be claimed once its binary exists")} for pid in all_ids if pid not in props or not props[pid].get("claimed", True)]
manifest = {
    "version": 1,
    "setup_cmd": "./check setup",
    "hooks": {
        "guard": "cargo feature `verif` of text-utils (default off)",
        "enable": "the harness crate /verif/harness depends on text-utils = { path = \"/repo\", features = [\"verif\"] }; every check rebuilds it from /repo's working tree",
        "baseline_off_cmd": "cd /repo && cargo test --workspace --no-fail-fast --offline",
        "source_commits": list(reversed(hook_commits)),
        "add_only": True,
    },
    "engines": [
        {"name": "engine_a", "path": "harness/src/{enumerate,refs,srng,run,guard}.rs + harness/src/bin/cNN.rs", "serves_properties": [p for p in all_ids if p in props and props[p].get("engine", "A") in ("A", "AB")],
         "kind_free_text": "bounded-exhaustive enumeration of inputs x configurations x random decisions on the real code, each execution compared with a reference model or invariant (explicit enumeration, no sampling, no solver)"},
        {"name": "engine_b", "path": "harness/src/sched.rs + /repo/src/verif.rs", "serves_properties": [p for p in all_ids if p in props and props[p].get("engine") in ("B", "AB")],
         "kind_free_text": "controlled scheduler over the real OS threads of the subject through instrumented primitives: explicit-state search of all interleavings with state hashing, plus stateless preemption-bounded DFS"},
    ],
    "checks": checks,
    "not_applicable": na,
    "notes": "All checks: ./check <ID> quick|thorough (cwd /verif). Exit 0 held / 1 VIOLATION / 2 machinery error. Known findings: known_findings.json. Design: DESIGN.md.",
}
json.dump(manifest, open(os.path.join(V, "MANIFEST.json"), "w"), indent=1)
print(f"MANIFEST.json: {len(checks)} checks, {len(na)} not_applicable")
