#!/bin/bash
# usage: tools/run_seeds.sh [seed ids...]   (default: all of /verif/seeded/*)
# For each kept seed: git -C /repo apply patch.diff, run the quick check of the property it breaks
# (and of the other properties listed in meta.json "also_run"), record the outcome in
# seeded/<id>/check_result.txt, and undo the change with git -C /repo checkout -- .
cd /verif
if [ -n "$(git -C /repo status --porcelain)" ]; then echo "/repo is not clean"; exit 2; fi
ids=("$@"); if [ ${#ids[@]} -eq 0 ]; then ids=($(ls seeded)); fi
for id in "${ids[@]}"; do
  d=seeded/$id
  prop=$(python3 -c "import json;print(json.load(open('$d/meta.json'))['property'])")
  if ! git -C /repo apply "/verif/$d/patch.diff"; then echo "$id: patch does not apply to /repo HEAD" | tee "$d/check_result.txt"; continue; fi
  out=$(VERIF_EVIDENCE_DIR=/tmp/seed_evidence VERIF_REPLAY_DIR=/tmp/seed_replays ./check "$prop" quick 2>&1); rc=$?
  git -C /repo checkout -- .
  { echo "command: git -C /repo apply /verif/$d/patch.diff && ./check $prop quick ; git -C /repo checkout -- ."; echo "repo HEAD: $(git -C /repo rev-parse --short HEAD)"; echo "exit status: $rc"; echo "$out" | cut -c1-600 | grep -v '^  case:' ; } > "$d/check_result.txt"
  echo "$id ($prop): exit $rc $(echo "$out" | grep -c '^VIOLATION') violation line(s)"
done
rm -rf /tmp/seed_evidence /tmp/seed_replays
