#!/bin/bash
# usage: tools/confirm_seed.sh <seed_dir containing patch.diff demo.rs meta.json> [extra cargo test args for the demo]
# Confirms a seeded change independently in a fresh scratch worktree of /repo: (1) applies and builds,
# (2) the repository's own suite passes with it, (3) the demonstration fails with it and (4) passes
# without it. Writes <seed_dir>/confirm.log and prints a summary line. The worktree is removed.
set -u
D=$(readlink -f "$1"); shift
EXTRA="$*"
WT=/tmp/confirm_wt_$$
git -C /repo worktree add --detach "$WT" HEAD -f >/dev/null 2>&1 || { echo "cannot create worktree"; exit 2; }
LOG="$D/confirm.log"; : > "$LOG"
cd "$WT"
if ! git apply "$D/patch.diff" 2>>"$LOG"; then echo "CONFIRM $D: patch does not apply"; cd /; git -C /repo worktree remove --force "$WT"; exit 1; fi
export CARGO_TARGET_DIR=/tmp/confirm_target
echo "== suite with change" >> "$LOG"
cargo test --workspace --no-fail-fast --offline >> "$LOG" 2>&1; S1=$?
SUITE=$(grep -E "^test result" "$LOG" | head -1)
cargo build --offline --features verif >> "$LOG" 2>&1; B=$?
mkdir -p tests; cp "$D/demo.rs" tests/seeded_demo.rs
echo "== demo with change" >> "$LOG"
timeout 600 cargo test --offline $EXTRA --test seeded_demo >> "$LOG" 2>&1; S2=$?
git checkout -- src
echo "== demo without change" >> "$LOG"
timeout 600 cargo test --offline $EXTRA --test seeded_demo >> "$LOG" 2>&1; S3=$?
cd /; git -C /repo worktree remove --force "$WT"
echo "CONFIRM $D: suite_with_change_rc=$S1 ($SUITE) verif_build_rc=$B demo_with_change_rc=$S2 demo_without_change_rc=$S3"
if [ $S1 -eq 0 ] && [ $B -eq 0 ] && [ $S2 -ne 0 ] && [ $S3 -eq 0 ]; then echo "CONFIRMED"; exit 0; else echo "NOT CONFIRMED"; exit 1; fi
