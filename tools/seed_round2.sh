#!/bin/bash
# usage: tools/seed_round2.sh <PROP> <n>   -> prepares worktree /tmp/seed_wt/<prop>r<n>, out dir /tmp/seeded/<PROP>-<n>, prompt file
P=$1; N=$2; p=${P,,}
WT=/tmp/seed_wt/${p}r$N; OUT=/tmp/seeded/$P-$N
git -C /repo worktree add --detach $WT HEAD -f >/dev/null 2>&1
mkdir -p $OUT
python3 /verif/tools/seed_prompt.py $P $WT $OUT | sed "s#tests/seeded_${p}.rs#tests/seeded_${p}_$N.rs#g" > /tmp/seeded/prompt_$P-$N.txt
python3 - "$P" >> /tmp/seeded/prompt_$P-$N.txt <<'PY'
import json,glob,sys
P=sys.argv[1]
prev=[json.load(open(f)) for f in sorted(glob.glob(f'/verif/seeded/{P}-*/meta.json'))]
if prev:
    print("\nNote: other engineers have already seeded these changes for the same property:")
    for m in prev: print(f"  - {m['summary']}")
    print("Choose a DIFFERENT mechanism, in a different function or a different clause of the property if possible, and make it at least as hard to trigger.")
PY
echo /tmp/seeded/prompt_$P-$N.txt
