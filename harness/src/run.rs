//! Shard-process side of the driver contract (see /verif/DESIGN.md 2.2).
//!
//! A property binary is invoked as
//!   cNN --tier quick|thorough --shard i/n --out <report.json> [--budget-s S]
//!   cNN --only-unit N ...      run exactly one enumeration unit (confirmation of a hang / abort)
//!   cNN --describe-unit N      print a JSON description of unit N
//!   cNN --replay <file.json>   re-execute the single case stored in a replay file
//! It exits 0 when it ran to completion (violations are *in the report*), 3 when its own watchdog
//! saw no progress for `HANG_SECS` (the unit is in `<out>.journal`). Any other status is a crash of
//! the subject inside the unit named by the journal.
use serde_json::{json, Map, Value};
use std::collections::{BTreeMap, HashSet};
use std::fs::File;
use std::hash::{Hash, Hasher};
use std::io::Write;
use std::os::unix::fs::FileExt;
use std::path::PathBuf;
use std::sync::atomic::{AtomicU64, Ordering};
use std::time::{Duration, Instant};

pub const HANG_SECS: u64 = 10;

/// process-wide progress counter watched by the watchdog (units, ticks, scheduler decisions)
pub static PROGRESS: AtomicU64 = AtomicU64::new(0);

#[inline]
pub fn progress() {
    PROGRESS.fetch_add(1, Ordering::Relaxed);
}
const MAX_VIOLATIONS_PER_CLAUSE: usize = 8;
const MAX_SAMPLES: usize = 12;

#[derive(Clone, Copy, PartialEq, Eq, Debug)]
pub enum Tier {
    Quick,
    Thorough,
}

#[derive(Clone, Debug)]
pub enum Mode {
    Explore,
    OnlyUnit(u64),
    DescribeUnit(u64),
    Replay(PathBuf),
}

pub struct Run {
    pub id: &'static str,
    pub tier: Tier,
    pub mode: Mode,
    pub shard: u64,
    pub nshards: u64,
    pub seed: u64,
    out: Option<PathBuf>,
    journal: Option<File>,
    cur_unit: Option<u64>,
    start: Instant,
    budget: Option<Duration>,
    // counters
    pub evaluations: u64,
    pub calls: u64,
    pub nontrivial: u64,
    pub compared: u64,
    outcomes: HashSet<u64>,
    pub hist: BTreeMap<String, u64>,
    samples: Vec<Value>,
    sample_stride: u64,
    violations: Vec<Value>,
    violation_counts: BTreeMap<String, u64>,
    pub capped: Option<String>,
    pub bounds: Map<String, Value>,
    pub extra: Map<String, Value>,
    pub assumptions: Vec<String>,
}

fn usage(id: &str) -> ! {
    eprintln!("usage: {id} --tier quick|thorough --shard i/n --out FILE [--budget-s S] | --only-unit N | --describe-unit N | --replay FILE");
    std::process::exit(2)
}

impl Run {
    pub fn from_env(id: &'static str) -> Run {
        let args: Vec<String> = std::env::args().skip(1).collect();
        let mut tier = Tier::Quick;
        let mut mode = Mode::Explore;
        let (mut shard, mut nshards) = (0u64, 1u64);
        let mut out = None;
        let mut budget = None;
        let mut i = 0;
        while i < args.len() {
            let val = |i: usize| args.get(i + 1).cloned().unwrap_or_else(|| usage(id));
            match args[i].as_str() {
                "--tier" => {
                    tier = match val(i).as_str() {
                        "quick" => Tier::Quick,
                        "thorough" => Tier::Thorough,
                        _ => usage(id),
                    };
                    i += 1;
                }
                "--shard" => {
                    let v = val(i);
                    let (a, b) = v.split_once('/').unwrap_or_else(|| usage(id));
                    shard = a.parse().unwrap_or_else(|_| usage(id));
                    nshards = b.parse().unwrap_or_else(|_| usage(id));
                    i += 1;
                }
                "--out" => {
                    out = Some(PathBuf::from(val(i)));
                    i += 1;
                }
                "--budget-s" => {
                    budget = Some(Duration::from_secs_f64(val(i).parse().unwrap_or_else(|_| usage(id))));
                    i += 1;
                }
                "--only-unit" => {
                    mode = Mode::OnlyUnit(val(i).parse().unwrap_or_else(|_| usage(id)));
                    i += 1;
                }
                "--describe-unit" => {
                    mode = Mode::DescribeUnit(val(i).parse().unwrap_or_else(|_| usage(id)));
                    i += 1;
                }
                "--replay" => {
                    mode = Mode::Replay(PathBuf::from(val(i)));
                    i += 1;
                }
                _ => usage(id),
            }
            i += 1;
        }
        let seed = std::env::var("VERIF_SEED").ok().and_then(|s| s.parse().ok()).unwrap_or(0);
        crate::guard::quiet_panics();
        let journal = out.as_ref().map(|p: &PathBuf| {
            let mut j = p.clone().into_os_string();
            j.push(".journal");
            File::create(PathBuf::from(j)).expect("cannot create journal")
        });
        if matches!(mode, Mode::Explore | Mode::OnlyUnit(_)) {
            // watchdog: no progress for HANG_SECS => exit 3 (the journal names the unit); the driver
            // raises the limit when it repeats a shard whose suspected unit ran fine in isolation
            let hang_secs: u64 = std::env::var("VERIF_HANG_SECS").ok().and_then(|s| s.parse().ok()).unwrap_or(HANG_SECS);
            std::thread::Builder::new()
                .name("verif watchdog".into())
                .spawn(move || {
                    let p = &PROGRESS;
                    let mut last = p.load(Ordering::Relaxed);
                    let mut since = Instant::now();
                    loop {
                        std::thread::sleep(Duration::from_millis(100));
                        let cur = p.load(Ordering::Relaxed);
                        if cur != last {
                            last = cur;
                            since = Instant::now();
                        } else if since.elapsed() > Duration::from_secs(hang_secs) {
                            eprintln!("watchdog: no progress for {hang_secs}s");
                            std::process::exit(3);
                        }
                    }
                })
                .expect("cannot spawn watchdog");
        }
        Run {
            id,
            tier,
            mode,
            shard,
            nshards,
            seed,
            out,
            journal,
            cur_unit: None,
            start: Instant::now(),
            budget,
            evaluations: 0,
            calls: 0,
            nontrivial: 0,
            compared: 0,
            outcomes: HashSet::new(),
            hist: BTreeMap::new(),
            samples: vec![],
            sample_stride: 1,
            violations: vec![],
            violation_counts: BTreeMap::new(),
            capped: None,
            bounds: Map::new(),
            extra: Map::new(),
            assumptions: vec![],
        }
    }

    pub fn quick(&self) -> bool {
        self.tier == Tier::Quick
    }

    /// picks the quick or the thorough value
    pub fn pick<T>(&self, quick: T, thorough: T) -> T {
        if self.quick() {
            quick
        } else {
            thorough
        }
    }

    /// If the binary was started with `--replay`, the stored case.
    pub fn replay_case(&self) -> Option<Value> {
        if let Mode::Replay(p) = &self.mode {
            let v: Value = serde_json::from_reader(File::open(p).expect("cannot open replay file"))
                .expect("replay file is not json");
            Some(v.get("case").cloned().unwrap_or(v))
        } else {
            None
        }
    }

    pub fn describe_unit(&self) -> Option<u64> {
        if let Mode::DescribeUnit(n) = self.mode {
            Some(n)
        } else {
            None
        }
    }

    /// Decides whether enumeration unit `idx` belongs to this process and journals it. Units are the
    /// granularity of sharding, hang detection and crash attribution.
    #[inline]
    pub fn unit(&mut self, idx: u64) -> bool {
        match self.mode {
            Mode::Explore => {
                if (idx + self.seed) % self.nshards != self.shard {
                    return false;
                }
            }
            Mode::OnlyUnit(n) => {
                if idx != n {
                    return false;
                }
            }
            _ => return false,
        }
        if let Some(j) = &self.journal {
            let _ = j.write_all_at(&idx.to_le_bytes(), 0);
        }
        // (diagnostics: VERIF_UNIT_TIMES=<file> appends "<unit> <seconds since the previous unit began>")
        if let Ok(path) = std::env::var("VERIF_UNIT_TIMES") {
            use std::io::Write;
            thread_local! { static LAST: std::cell::Cell<Option<(u64, Instant)>> = const { std::cell::Cell::new(None) }; }
            let now = Instant::now();
            if let Some((u, t)) = LAST.with(|l| l.replace(Some((idx, now)))) {
                if let Ok(mut f) = std::fs::OpenOptions::new().create(true).append(true).open(&path) {
                    let _ = writeln!(f, "{u} {:.3}", (now - t).as_secs_f64());
                }
            }
        }
        self.cur_unit = Some(idx);
        progress();
        true
    }

    /// progress signal inside a long unit
    #[inline]
    pub fn tick(&self) {
        progress();
    }

    /// the instant at which the time budget of this process ends (None: unlimited)
    pub fn deadline(&self) -> Option<Instant> {
        self.budget.map(|b| self.start + b)
    }

    pub fn out_of_time(&mut self) -> bool {
        if let Some(b) = self.budget {
            if self.start.elapsed() > b {
                if self.capped.is_none() {
                    self.capped = Some(format!("time budget of {:.0}s reached", b.as_secs_f64()));
                }
                return true;
            }
        }
        false
    }

    #[inline]
    pub fn outcome<H: Hash>(&mut self, h: &H) {
        if self.outcomes.len() < 2_000_000 {
            let mut s = std::collections::hash_map::DefaultHasher::new();
            h.hash(&mut s);
            self.outcomes.insert(s.finish());
        }
    }

    pub fn count(&mut self, key: &str) {
        *self.hist.entry(key.to_string()).or_insert(0) += 1;
    }

    pub fn count_n(&mut self, key: &str, n: u64) {
        *self.hist.entry(key.to_string()).or_insert(0) += n;
    }

    /// keeps a thinning sample of the cases explored
    pub fn sample(&mut self, f: impl FnOnce() -> Value) {
        if self.evaluations % self.sample_stride == 0 {
            if self.samples.len() >= MAX_SAMPLES {
                // thin: keep every second, double the stride
                let mut k = 0;
                self.samples.retain(|_| {
                    k += 1;
                    k % 2 == 1
                });
                self.sample_stride *= 2;
                if self.evaluations % self.sample_stride != 0 {
                    return;
                }
            }
            self.samples.push(f());
        }
    }

    pub fn violation(&mut self, clause: &str, class: &str, case: Value, detail: String) {
        let key = format!("{clause}|{class}");
        let n = self.violation_counts.entry(key).or_insert(0);
        *n += 1;
        if (*n as usize) <= MAX_VIOLATIONS_PER_CLAUSE {
            // the enumeration unit is recorded so that a violation that depends on the calls made
            // before it in the unit (state carried by a long-lived object of the subject) can be
            // confirmed by re-running the unit when the single case does not reproduce alone
            self.violations.push(json!({"clause": clause, "class": class, "case": case, "detail": detail, "unit": self.cur_unit}));
        }
    }

    pub fn num_violations(&self) -> u64 {
        self.violation_counts.values().sum()
    }

    pub fn elapsed(&self) -> f64 {
        self.start.elapsed().as_secs_f64()
    }

    /// Writes the shard report (or prints the replay verdict) and exits.
    pub fn finish(self) -> ! {
        let report = json!({
            "property_id": self.id,
            "tier": if self.tier == Tier::Quick { "quick" } else { "thorough" },
            "shard": self.shard, "nshards": self.nshards,
            "evaluations": self.evaluations,
            "calls": self.calls,
            "nontrivial": self.nontrivial,
            "compared": self.compared,
            "distinct_outputs": self.outcomes.len(),
            "hist": self.hist,
            "samples": self.samples,
            "violations": self.violations,
            "violation_counts": self.violation_counts,
            "capped": self.capped,
            "bounds": self.bounds,
            "extra": self.extra,
            "assumptions": self.assumptions,
            "wall_s": self.start.elapsed().as_secs_f64(),
        });
        match (&self.mode, &self.out) {
            (Mode::Replay(_), _) | (Mode::OnlyUnit(_), None) => {
                let n: u64 = self.violation_counts.values().sum();
                println!("{}", serde_json::to_string_pretty(&json!({"violations": report["violations"], "violation_counts": report["violation_counts"], "evaluations": report["evaluations"]})).unwrap());
                std::process::exit(if n > 0 { 1 } else { 0 });
            }
            (_, Some(p)) => {
                let mut f = File::create(p).expect("cannot create report");
                f.write_all(serde_json::to_string(&report).unwrap().as_bytes()).expect("cannot write report");
                std::process::exit(0);
            }
            (_, None) => {
                println!("{}", serde_json::to_string_pretty(&report).unwrap());
                std::process::exit(0);
            }
        }
    }
}
