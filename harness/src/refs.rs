//! Boring reference models, written from the property statements and not from the code.
use std::collections::{BTreeMap, HashMap};
use unicode_segmentation::UnicodeSegmentation;

// ------------------------------------------------------------------------------------------------
// characters
// ------------------------------------------------------------------------------------------------

/// The characters of `s`: extended grapheme clusters or code points.
pub fn chars(s: &str, graphemes: bool) -> Vec<&str> {
    if graphemes {
        s.graphemes(true).collect()
    } else {
        s.char_indices().map(|(i, c)| &s[i..i + c.len_utf8()]).collect()
    }
}

/// A character is whitespace iff all its code points are Unicode White_Space.
pub fn is_ws(c: &str) -> bool {
    !c.is_empty() && c.chars().all(char::is_whitespace)
}

/// true iff some grapheme cluster of `s` mixes whitespace and non-whitespace code points (such
/// strings are outside the stated grapheme-mode domain of C10/C11/C14)
pub fn has_mixed_cluster(s: &str) -> bool {
    s.graphemes(true).any(|g| {
        let ws = g.chars().filter(|c| c.is_whitespace()).count();
        ws != 0 && ws != g.chars().count()
    })
}

/// `s` without its whitespace code points
pub fn strip_ws_code_points(s: &str) -> String {
    s.chars().filter(|c| !c.is_whitespace()).collect()
}

/// the non-whitespace characters of `s` in the given mode
pub fn nonws_chars(s: &str, graphemes: bool) -> Vec<&str> {
    chars(s, graphemes).into_iter().filter(|c| !is_ws(c)).collect()
}

/// whitespace-clean at character level: no leading / trailing / consecutive whitespace characters
/// and every whitespace character is a single U+0020
pub fn is_clean(s: &str, graphemes: bool) -> bool {
    let cs = chars(s, graphemes);
    let mut prev_ws = true; // leading
    for c in &cs {
        if is_ws(c) {
            if prev_ws || *c != " " {
                return false;
            }
            prev_ws = true;
        } else {
            prev_ws = false;
        }
    }
    cs.is_empty() || !prev_ws
}

// ------------------------------------------------------------------------------------------------
// edit distance (C12, C13, C20)
// ------------------------------------------------------------------------------------------------

/// Shortest path from (0,0) to (|a|,|b|) in the alignment grid, relaxing edges forward:
/// delete (i+1,j) cost 1, insert (i,j+1) cost 1, keep/substitute (i+1,j+1) cost 0/1 (substitution
/// forbidden when a space is involved under `sido`), adjacent transposition (i+2,j+2) cost 1
/// (likewise). Returns the whole distance table `d[i][j]` = distance(a[..i], b[..j]).
pub fn edit_table(a: &[&str], b: &[&str], with_swap: bool, sido: bool) -> Vec<Vec<usize>> {
    const INF: usize = usize::MAX / 2;
    let (n, m) = (a.len(), b.len());
    let mut d = vec![vec![INF; m + 1]; n + 1];
    d[0][0] = 0;
    for i in 0..=n {
        for j in 0..=m {
            let cur = d[i][j];
            if cur >= INF {
                continue;
            }
            if i < n {
                d[i + 1][j] = d[i + 1][j].min(cur + 1);
            }
            if j < m {
                d[i][j + 1] = d[i][j + 1].min(cur + 1);
            }
            if i < n && j < m {
                if a[i] == b[j] {
                    d[i + 1][j + 1] = d[i + 1][j + 1].min(cur);
                } else if !sido || (!is_ws(a[i]) && !is_ws(b[j])) {
                    d[i + 1][j + 1] = d[i + 1][j + 1].min(cur + 1);
                }
            }
            if with_swap && i + 1 < n && j + 1 < m && a[i] == b[j + 1] && a[i + 1] == b[j] {
                if !sido || (!is_ws(a[i]) && !is_ws(a[i + 1])) {
                    d[i + 2][j + 2] = d[i + 2][j + 2].min(cur + 1);
                }
            }
        }
    }
    d
}

pub fn edit_distance(a: &[&str], b: &[&str], with_swap: bool, sido: bool) -> usize {
    edit_table(a, b, with_swap, sido)[a.len()][b.len()]
}

/// textbook longest common subsequence length
pub fn lcs_len<T: PartialEq>(a: &[T], b: &[T]) -> usize {
    let mut d = vec![vec![0usize; b.len() + 1]; a.len() + 1];
    for i in 0..a.len() {
        for j in 0..b.len() {
            d[i + 1][j + 1] = if a[i] == b[j] { d[i][j] + 1 } else { d[i][j + 1].max(d[i + 1][j]) };
        }
    }
    d[a.len()][b.len()]
}

// ------------------------------------------------------------------------------------------------
// BPE (C02, C03, C04, C19)
// ------------------------------------------------------------------------------------------------

/// A merge table as the list of merged byte strings, entry i having merge id i.
pub type Table = Vec<Vec<u8>>;

/// Well-formed: no duplicates, every entry is the concatenation of two earlier tokens (single bytes
/// or earlier entries).
pub fn table_well_formed(t: &Table) -> bool {
    for (i, e) in t.iter().enumerate() {
        if e.len() < 2 || t[..i].contains(e) {
            return false;
        }
        let is_tok = |x: &[u8]| x.len() == 1 || t[..i].iter().any(|p| p.as_slice() == x);
        if !(1..e.len()).any(|k| is_tok(&e[..k]) && is_tok(&e[k..])) {
            return false;
        }
    }
    true
}

/// The words BPE works on: each maximal run of non-whitespace together with the whitespace run in
/// front of it (the very first word may have none); trailing whitespace belongs to no word.
/// Own implementation of the split `\s+\S+|^\S+`.
pub fn bpe_words(s: &str) -> Vec<&str> {
    let mut words = vec![];
    let idx: Vec<(usize, char)> = s.char_indices().collect();
    let mut i = 0;
    while i < idx.len() {
        let start = idx[i].0;
        let mut j = i;
        while j < idx.len() && idx[j].1.is_whitespace() {
            j += 1;
        }
        if j == idx.len() {
            break; // trailing whitespace: dropped
        }
        let mut k = j;
        while k < idx.len() && !idx[k].1.is_whitespace() {
            k += 1;
        }
        let end = if k < idx.len() { idx[k].0 } else { s.len() };
        words.push(&s[start..end]);
        i = k;
    }
    words
}

/// Reference encoder for one word: start from bytes; repeatedly, among all adjacent pairs whose
/// concatenation is a table entry, merge the one with the lowest id (leftmost on ties).
/// Returns (token ids, number of merges performed, maximal merge depth).
pub fn bpe_encode_word(word: &[u8], ids: &HashMap<Vec<u8>, u32>) -> (Vec<u32>, usize, usize) {
    let mut toks: Vec<(Vec<u8>, u32, usize)> = word.iter().map(|b| (vec![*b], *b as u32, 0usize)).collect();
    let mut merges = 0;
    loop {
        let mut best: Option<(u32, usize)> = None;
        for i in 0..toks.len().saturating_sub(1) {
            let cat = [toks[i].0.as_slice(), toks[i + 1].0.as_slice()].concat();
            if let Some(&id) = ids.get(&cat) {
                if best.map(|(b, _)| id < b).unwrap_or(true) {
                    best = Some((id, i));
                }
            }
        }
        let Some((id, i)) = best else { break };
        let depth = toks[i].2.max(toks[i + 1].2) + 1;
        let cat = [toks[i].0.as_slice(), toks[i + 1].0.as_slice()].concat();
        toks[i] = (cat, 256 + id, depth);
        toks.remove(i + 1);
        merges += 1;
    }
    let depth = toks.iter().map(|t| t.2).max().unwrap_or(0);
    (toks.into_iter().map(|t| t.1).collect(), merges, depth)
}

pub fn table_ids(t: &Table) -> HashMap<Vec<u8>, u32> {
    t.iter().enumerate().map(|(i, e)| (e.clone(), i as u32)).collect()
}

/// Reference encoding of a whole string (special tokens ignored): ids, total merges, max depth,
/// max merges in one word.
pub fn bpe_encode(s: &str, ids: &HashMap<Vec<u8>, u32>) -> (Vec<u32>, usize, usize, usize) {
    let mut out = vec![];
    let (mut merges, mut depth, mut per_word) = (0, 0, 0);
    for w in bpe_words(s) {
        let (t, m, d) = bpe_encode_word(w.as_bytes(), ids);
        out.extend(t);
        merges += m;
        depth = depth.max(d);
        per_word = per_word.max(m);
    }
    (out, merges, depth, per_word)
}

/// The corpus words `train_bpe` counts: per line, after cleaning, the first word bare and every
/// later word with one leading space.
pub fn bpe_corpus_words(lines: &[String]) -> BTreeMap<String, usize> {
    let mut m = BTreeMap::new();
    for l in lines {
        for (i, w) in l.split_whitespace().enumerate() {
            let k = if i == 0 { w.to_string() } else { format!(" {w}") };
            *m.entry(k).or_insert(0) += 1;
        }
    }
    m
}

pub fn merge_pair_in_word(word: &[Vec<u8>], a: &[u8], b: &[u8]) -> Vec<Vec<u8>> {
    let mut out: Vec<Vec<u8>> = vec![];
    let mut i = 0;
    while i < word.len() {
        if i + 1 < word.len() && word[i] == a && word[i + 1] == b {
            out.push([a, b].concat());
            i += 2;
        } else {
            out.push(word[i].clone());
            i += 1;
        }
    }
    out
}

/// Recount-everything replay of a trained table against its corpus. `Ok(exhausted)` if every entry
/// is the concatenation of an adjacent pair with positive and maximal frequency in the corpus as
/// segmented by the earlier merges (`exhausted`: no pair is left afterwards), otherwise the reason.
pub fn bpe_replay_training(words: &BTreeMap<String, usize>, table: &Table) -> Result<bool, String> {
    let mut corpus: Vec<(Vec<Vec<u8>>, usize)> =
        words.iter().map(|(w, c)| (w.bytes().map(|b| vec![b]).collect(), *c)).collect();
    for (i, e) in table.iter().enumerate() {
        let mut freq: BTreeMap<(Vec<u8>, Vec<u8>), usize> = BTreeMap::new();
        for (w, c) in &corpus {
            for k in 1..w.len() {
                *freq.entry((w[k - 1].clone(), w[k].clone())).or_insert(0) += c;
            }
        }
        let mx = freq.values().copied().max().unwrap_or(0);
        let cands: Vec<(&(Vec<u8>, Vec<u8>), &usize)> =
            freq.iter().filter(|((x, y), _)| [x.as_slice(), y.as_slice()].concat() == *e).collect();
        if cands.is_empty() {
            return Err(format!("entry {i} ({:?}) is not an adjacent pair of the corpus segmented by merges 0..{i}", String::from_utf8_lossy(e)));
        }
        let best = cands.iter().max_by_key(|(_, f)| **f).unwrap();
        if *best.1 == 0 {
            return Err(format!("entry {i} ({:?}) has frequency 0", String::from_utf8_lossy(e)));
        }
        if *best.1 != mx {
            return Err(format!("entry {i} ({:?}) has frequency {} but the maximal pair frequency is {mx}", String::from_utf8_lossy(e), best.1));
        }
        let (a, b) = best.0.clone();
        corpus = corpus.into_iter().map(|(w, c)| (merge_pair_in_word(&w, &a, &b), c)).collect();
    }
    Ok(corpus.iter().all(|(w, _)| w.len() <= 1))
}

/// Writes a merge table in the on-disk format `BPETokenizer::new` / `train_bpe` use
/// (MessagePack map bytes -> id).
pub fn write_merge_file(path: &std::path::Path, table: &Table) {
    use text_utils::utils::SerializeMsgPack;
    let m: text_utils::tokenization::MergeOps = table_ids(table);
    m.save(path).expect("cannot write merge file");
}

pub fn load_merge_file(path: &std::path::Path) -> Result<Vec<(u32, Vec<u8>)>, String> {
    use text_utils::utils::SerializeMsgPack;
    let m = text_utils::tokenization::MergeOps::load(path).map_err(|e| format!("{e}"))?;
    let mut ents: Vec<(u32, Vec<u8>)> = m.into_iter().map(|(k, v)| (v, k)).collect();
    ents.sort();
    Ok(ents)
}

// ------------------------------------------------------------------------------------------------
// scratch directories
// ------------------------------------------------------------------------------------------------

pub struct Scratch(pub std::path::PathBuf);

impl Scratch {
    pub fn new(tag: &str) -> Scratch {
        let base = if std::path::Path::new("/dev/shm").is_dir() { "/dev/shm".to_string() } else { "/verif/.scratch".to_string() };
        let d = std::path::PathBuf::from(format!("{base}/tu_verif_{tag}_{}", std::process::id()));
        std::fs::create_dir_all(&d).expect("cannot create scratch dir");
        Scratch(d)
    }
    pub fn path(&self, name: &str) -> std::path::PathBuf {
        self.0.join(name)
    }
}

impl Drop for Scratch {
    fn drop(&mut self) {
        let _ = std::fs::remove_dir_all(&self.0);
    }
}
