//! C10 — whitespace `operations` and `repair` are inverse; `repair` only touches whitespace.
//! Engine A (DESIGN 5/C10), two exhaustive enumerations on the real functions:
//!
//! (a) ALL pairs (from, to) of whitespace-clean texts with the same non-whitespace content that can
//!     be built from one non-whitespace symbol sequence w and two independent gap vectors (a single
//!     U+0020 or nothing between neighbouring symbols) x use_graphemes.  Oracle: `operations` is
//!     `Ok`, has exactly one operation per character of `from`, and `repair(from, ops) == to`.
//!     The symbols come from the BASE alphabet (clustering is stable under removal of whitespace)
//!     plus a separately classified PROBE alphabet (a regional-indicator pair and a conjoining
//!     Hangul L/V jamo pair): these symbols satisfy the stated grapheme-mode domain ("no cluster
//!     mixes whitespace with non-whitespace code points") but cluster differently once the space
//!     between them is removed.  A violation gets the class `D9-cluster-sequence-differs` iff w
//!     uses a probe symbol, use_graphemes is on and the non-whitespace grapheme sequences of `from`
//!     and `to` differ; every other violation has class "" and alarms.  Panics are never classed.
//!
//! (b) all strings over a 5-symbol alphabet x ALL operation sequences of the matching length and
//!     of the lengths one below / one above x use_graphemes.  Oracle: matching length: removing
//!     the whitespace code points from input and output gives the same text, all-Keep returns the
//!     input; mismatching length: `Err`; never a panic.
//!
//! Readings taken (always the one under which fewer behaviours are violations, DESIGN 6):
//!  * the stated domain of (a) is enforced by predicates on the generated strings (clean at
//!    code-point AND at character level, equal after removing whitespace code points, no mixed
//!    cluster in grapheme mode), not by trusting the construction; cases outside are skipped and
//!    counted;
//!  * "changes nothing but whitespace" is judged at code-point level in both modes (in the stated
//!    domain a cluster-level comparison is implied by nothing weaker: re-clustering of the output
//!    could make it differ although only whitespace code points were touched);
//!  * for a matching length an `Err` from `repair` is tolerated for sequences other than all-Keep
//!    (a stricter implementation may reject e.g. Delete on a non-whitespace character and still
//!    "change nothing but whitespace"); such results are counted in `hist` so that a vacuous run
//!    is visible.  All-Keep must be `Ok(input)`.
use serde_json::{json, Value};
use text_utils::whitespace::{operations, repair, Operation};
use tu_verif::enumerate::{sequences, strings};
use tu_verif::guard::catch;
use tu_verif::refs;
use tu_verif::run::Run;

/// symbols 0..4: base alphabet, 4..8: probe alphabet (D, E regional indicators; Hangul L, V jamo)
const SYMBOLS: [&str; 8] = ["a", "ä", "😀", "e\u{301}", "\u{1F1E9}", "\u{1F1EA}", "\u{1100}", "\u{1161}"];
const N_BASE: usize = 4;
const B_ALPHA: [&str; 5] = ["a", " ", "\t", "ä", "\u{a0}"];
/// second families: characters next to the boundary of the White_Space class -- ASCII controls below
/// U+0020 that are not White_Space (U+0001, U+001F), ZERO WIDTH SPACE (not White_Space, next to
/// U+200A which is), letters whose UTF-8 encoding ends in the byte 0xA0 / 0x85 (à, Å: read as Latin-1 those
/// bytes are NBSP and NEL) -- and for part (b) also NEL (U+0085, White_Space, next to the C1 controls) and CR LF (an all-whitespace,
/// all-ASCII cluster of two code points)
const EDGE_SYMBOLS: [&str; 6] = ["a", "\u{1}", "\u{1f}", "\u{200b}", "\u{e0}", "\u{c5}"];
const EDGE_B_ALPHA: [&str; 6] = ["\u{1}", " ", "\u{200b}", "\u{85}", "\u{1f}", "\r\n"];
const D9: &str = "D9-cluster-sequence-differs";

fn uses_probe_symbol(s: &str) -> bool {
    SYMBOLS[N_BASE..].iter().any(|p| s.contains(p))
}

fn build(w: &[usize], gaps: u32) -> String {
    build_from(&SYMBOLS, w, gaps)
}

fn build_from(symbols: &[&str], w: &[usize], gaps: u32) -> String {
    let mut s = String::new();
    for (i, c) in w.iter().enumerate() {
        s.push_str(symbols[*c]);
        if i + 1 < w.len() && (gaps >> i) & 1 == 1 {
            s.push(' ');
        }
    }
    s
}

fn ops_str(ops: &[Operation]) -> String {
    ops.iter()
        .map(|o| match o {
            Operation::Keep => 'k',
            Operation::Insert => 'i',
            Operation::Delete => 'd',
        })
        .collect()
}

fn ops_from_str(s: &str) -> Vec<Operation> {
    s.chars()
        .map(|c| match c {
            'k' => Operation::Keep,
            'i' => Operation::Insert,
            'd' => Operation::Delete,
            _ => panic!("bad operation letter {c:?} in replay case"),
        })
        .collect()
}

/// the `code`-th operation sequence of length `len` (base-3 digits, first position least significant)
fn ops_from_code(mut code: usize, len: usize) -> Vec<Operation> {
    (0..len)
        .map(|_| {
            let d = code % 3;
            code /= 3;
            match d {
                0 => Operation::Keep,
                1 => Operation::Insert,
                _ => Operation::Delete,
            }
        })
        .collect()
}

fn case_a(from: &str, to: &str, g: bool) -> Value {
    json!({"part": "a", "from": from, "to": to, "use_graphemes": g})
}

fn case_b(s: &str, ops: &[Operation], g: bool) -> Value {
    json!({"part": "b", "s": s, "ops": ops_str(ops), "use_graphemes": g})
}

/// part (a): one pair of clean texts with equal content
fn check_a(run: &mut Run, from: &str, to: &str, g: bool) {
    run.evaluations += 1;
    // the stated domain, by predicate (strictest reading of the domain = weakest property)
    let in_domain = refs::is_clean(from, false)
        && refs::is_clean(to, false)
        && refs::is_clean(from, g)
        && refs::is_clean(to, g)
        && refs::strip_ws_code_points(from) == refs::strip_ws_code_points(to)
        && (!g || (!refs::has_mixed_cluster(from) && !refs::has_mixed_cluster(to)));
    if !in_domain {
        run.count("a:outside-stated-domain(skipped)");
        return;
    }
    let probe = uses_probe_symbol(from);
    let clusters_differ = g && refs::nonws_chars(from, true) != refs::nonws_chars(to, true);
    let class = if probe && clusters_differ { D9 } else { "" };
    run.count(if probe { "a:probe-alphabet" } else { "a:base-alphabet" });
    if clusters_differ {
        run.count(if probe { "a:probe-alphabet,D9-predicate-true" } else { "a:base-alphabet,D9-predicate-true(unexpected)" });
    }
    if from != to {
        run.nontrivial += 1;
    }
    run.sample(|| case_a(from, to, g));
    let case = || case_a(from, to, g);
    let before = run.num_violations();
    run.calls += 1;
    match catch(|| operations(from, to, g)) {
        Err(p) => run.violation("no-panic", "", case(), format!("operations panicked: {p}")),
        Ok(Err(e)) => {
            let e = format!("{e}");
            run.violation("operations-ok", class, case(), format!("operations returned Err: {}", e.lines().next().unwrap_or("")));
        }
        Ok(Ok(ops)) => {
            run.compared += 1;
            let n = refs::chars(from, g).len();
            if ops.len() != n {
                run.violation("one-operation-per-character", class, case(), format!("{} operations ({}) for {n} characters", ops.len(), ops_str(&ops)));
            }
            run.calls += 1;
            match catch(|| repair(from, &ops, g)) {
                Err(p) => run.violation("no-panic", "", case(), format!("repair panicked on operations {}: {p}", ops_str(&ops))),
                Ok(Err(e)) => {
                    let e = format!("{e}");
                    run.violation("repair-yields-to", class, case(), format!("repair returned Err on operations {}: {}", ops_str(&ops), e.lines().next().unwrap_or("")));
                }
                Ok(Ok(r)) => {
                    run.compared += 1;
                    run.outcome(&(ops_str(&ops), &r));
                    if r != to {
                        run.violation("repair-yields-to", class, case(), format!("operations = {}, repair gives {r:?}", ops_str(&ops)));
                    }
                }
            }
        }
    }
    if clusters_differ && probe && run.num_violations() == before {
        // exactness of the class predicate in the other direction (information only)
        run.count("a:probe-alphabet,D9-predicate-true,no-violation");
    }
}

/// part (b): one string and one operation sequence
fn check_b(run: &mut Run, s: &str, ops: &[Operation], g: bool) {
    run.evaluations += 1;
    let n = refs::chars(s, g).len();
    let case = || case_b(s, ops, g);
    run.sample(|| case_b(s, ops, g));
    run.calls += 1;
    let res = catch(|| repair(s, ops, g));
    if ops.len() != n {
        match res {
            Err(p) => run.violation("no-panic", "", case(), format!("repair panicked on a length mismatch ({} operations, {n} characters): {p}", ops.len())),
            Ok(Ok(out)) => run.violation("length-mismatch-is-error", "", case(), format!("{} operations for {n} characters accepted, output {out:?}", ops.len())),
            Ok(Err(_)) => {
                run.compared += 1;
                run.count("b:length-mismatch-err");
            }
        }
        return;
    }
    let all_keep = ops.iter().all(|o| *o == Operation::Keep);
    match res {
        Err(p) => run.violation("no-panic", "", case(), format!("repair panicked: {p}")),
        Ok(Err(e)) => {
            if all_keep {
                run.violation("all-keep-is-identity", "", case(), format!("all-Keep sequence of matching length rejected: {e}"));
            } else {
                run.count("b:matching-length-err(tolerated)");
            }
        }
        Ok(Ok(out)) => {
            run.compared += 1;
            run.count("b:matching-length-ok");
            run.outcome(&(s, &out));
            if out != s {
                run.nontrivial += 1;
            }
            if refs::strip_ws_code_points(&out) != refs::strip_ws_code_points(s) {
                run.violation("only-whitespace-changes", "", case(), format!("output {out:?}: non-whitespace content {:?} became {:?}", refs::strip_ws_code_points(s), refs::strip_ws_code_points(&out)));
            }
            if all_keep && out != s {
                run.violation("all-keep-is-identity", "", case(), format!("all-Keep gives {out:?}"));
            }
        }
    }
}

fn main() {
    let mut run = Run::from_env("C10");
    if let Some(c) = run.replay_case() {
        let g = c["use_graphemes"].as_bool().unwrap();
        if c["part"].as_str() == Some("b") {
            check_b(&mut run, c["s"].as_str().unwrap(), &ops_from_str(c["ops"].as_str().unwrap()), g);
        } else {
            check_a(&mut run, c["from"].as_str().unwrap(), c["to"].as_str().unwrap(), g);
        }
        run.finish();
    }
    let max_w = run.pick(4, 5);
    let max_len = run.pick(4, 5);
    // units 0..ws.len(): part (a), one symbol sequence each; then one unit per string of part (b)
    let ws = sequences(SYMBOLS.len(), max_w);
    let bs = strings(&B_ALPHA, max_len);
    let n_a = ws.len() as u64;
    let ews = sequences(EDGE_SYMBOLS.len(), max_w);
    let ebs = strings(&EDGE_B_ALPHA, max_len.min(4));
    let n_e = n_a + bs.len() as u64;
    if let Some(n) = run.describe_unit() {
        if n >= n_e {
            let k = (n - n_e) as usize;
            if let Some(w) = ews.get(k) {
                println!("{}", json!({"part": "a (edge symbols)", "w": w.iter().map(|i| EDGE_SYMBOLS[*i]).collect::<Vec<_>>(), "pairs": "every pair of gap vectors x use_graphemes"}));
            } else if let Some(s) = ebs.get(k - ews.len()) {
                println!("{}", json!({"part": "b (edge alphabet)", "s": s, "operations": "every operation sequence of length n-1, n, n+1 x use_graphemes"}));
            } else {
                println!("{}", json!({"error": "no such unit"}));
            }
            return;
        }
        if n < n_a {
            let w: Vec<&str> = ws[n as usize].iter().map(|i| SYMBOLS[*i]).collect();
            println!("{}", json!({"part": "a", "w": w, "pairs": "every pair of gap vectors (a single U+0020 or nothing between neighbouring symbols) x use_graphemes"}));
        } else if let Some(s) = bs.get((n - n_a) as usize) {
            println!("{}", json!({"part": "b", "s": s, "operations": "every operation sequence of length n-1, n, n+1 (n = number of characters) x use_graphemes"}));
        } else {
            println!("{}", json!({"error": "no such unit"}));
        }
        return;
    }
    run.bounds.insert("a_base_alphabet".into(), json!(&SYMBOLS[..N_BASE]));
    run.bounds.insert("a_probe_alphabet".into(), json!(&SYMBOLS[N_BASE..]));
    run.bounds.insert("a_max_symbols".into(), json!(max_w));
    run.bounds.insert("a_symbol_sequences".into(), json!(ws.len()));
    run.bounds.insert("a_gaps".into(), json!("both gap vectors in {nothing, U+0020}^(|w|-1), independently"));
    run.bounds.insert("b_alphabet".into(), json!(B_ALPHA));
    run.bounds.insert("b_max_symbols".into(), json!(max_len));
    run.bounds.insert("b_strings".into(), json!(bs.len()));
    run.bounds.insert("b_operation_sequences".into(), json!("all 3^m sequences over {Keep, Insert, Delete} for m in {n-1, n, n+1}, n = number of characters"));
    run.bounds.insert("edge_a_symbols".into(), json!(EDGE_SYMBOLS));
    run.bounds.insert("edge_b_alphabet".into(), json!(EDGE_B_ALPHA));
    run.bounds.insert("edge_b_max_symbols".into(), json!(max_len.min(4)));
    run.bounds.insert("use_graphemes".into(), json!([false, true]));
    run.extra.insert(
        "rule".into(),
        json!("(a) every sequence w over the 8 symbols (base + probe) up to the bound x every ordered pair of gap vectors x use_graphemes, shortlex; a case is non-trivial when from != to. (b) every string over the 5-symbol alphabet up to the bound x use_graphemes x every operation sequence of the matching length and of the lengths one below and one above; a case is non-trivial when the length matches and the output differs from the input. Cases outside the stated domain (predicate) are skipped and counted in hist."),
    );
    run.assumptions.push("unicode-segmentation (the same crate version the subject links) decides grapheme clusters in the domain and class predicates".into());
    run.assumptions.push("char::is_whitespace is the Unicode White_Space property the statement names".into());

    // ---- part (a)
    for (iw, w) in ws.iter().enumerate() {
        if !run.unit(iw as u64) {
            continue;
        }
        if run.out_of_time() {
            break;
        }
        let k = w.len().saturating_sub(1) as u32;
        for g1 in 0..(1u32 << k) {
            let from = build(w, g1);
            for g2 in 0..(1u32 << k) {
                let to = build(w, g2);
                for g in [false, true] {
                    check_a(&mut run, &from, &to, g);
                }
            }
        }
    }
    // ---- part (a), edge symbols
    for (iw, w) in ews.iter().enumerate() {
        if !run.unit(n_e + iw as u64) {
            continue;
        }
        let k = w.len().saturating_sub(1) as u32;
        for g1 in 0..(1u32 << k) {
            let from = build_from(&EDGE_SYMBOLS, w, g1);
            for g2 in 0..(1u32 << k) {
                let to = build_from(&EDGE_SYMBOLS, w, g2);
                for g in [false, true] {
                    check_a(&mut run, &from, &to, g);
                }
            }
        }
    }
    // ---- part (a), long texts: symbol counts around the powers of two a size threshold would sit at;
    // gap patterns none / all / alternating / one gap at the start, in the middle, at the end, every
    // ordered pair of them
    {
        let lens = tu_verif::enumerate::threshold_lengths(run.pick(8, 10));
        run.bounds.insert("a_long_phase".into(), json!(format!("symbol counts {lens:?} x (2 symbol patterns x every ordered pair of 6 gap patterns; every ordered pair of 7 texts around one grapheme cluster of that many code points; part (b): 9 texts of one repeated 2-, 3-, 4-byte character at every byte alignment, and cut by a space, x all-Keep lists of 0, 1, n-1, n, n+1, 2n operations) x use_graphemes")));
        let base_l = n_e + (ews.len() + ebs.len()) as u64;
        for (k, n) in lens.iter().enumerate() {
            if !run.unit(base_l + k as u64) {
                continue;
            }
            for pat in [&["a"][..], &["a", "ä", "e\u{301}"][..]] {
                let syms: Vec<&str> = (0..*n).map(|i| pat[i % pat.len()]).collect();
                let with = |gap: &dyn Fn(usize) -> bool| -> String {
                    let mut s = String::new();
                    for (i, c) in syms.iter().enumerate() {
                        s.push_str(c);
                        if i + 1 < syms.len() && gap(i) {
                            s.push(' ');
                        }
                    }
                    s
                };
                let m = *n / 2;
                let texts = [with(&|_| false), with(&|_| true), with(&|i| i % 2 == 0), with(&|i| i == 0), with(&|i| i == m), with(&|i| i + 2 == *n)];
                for from in &texts {
                    for to in &texts {
                        for g in [false, true] {
                            check_a(&mut run, from, to, g);
                        }
                    }
                }
            }
            // part (b) on long texts: multi-byte characters at every alignment relative to a byte offset,
            // all-Keep of the matching length and operation lists of other lengths (error, not a panic)
            for t in tu_verif::enumerate::byte_aligned_texts(*n) {
                let spaced = format!("{} {}", &t[..t.len() / 2 + (0..4).find(|d| t.is_char_boundary(t.len() / 2 + d)).unwrap()], "a");
                for s in [t.clone(), spaced] {
                    for g in [false, true] {
                        let nch = refs::chars(&s, g).len();
                        for len in [0, 1, nch - 1, nch, nch + 1, 2 * nch] {
                            check_b(&mut run, &s, &vec![Operation::Keep; len], g);
                        }
                    }
                }
            }
            // one grapheme cluster of n code points inside a text, gaps before and after it
            let w = format!("a{}", "\u{301}".repeat(*n - 1));
            let texts = [format!("x{w}y"), format!("x {w}y"), format!("x{w} y"), format!("x {w} y"), w.clone(), format!("{w} {w}"), format!("{w}{w}")];
            for from in &texts {
                for to in &texts {
                    for g in [false, true] {
                        check_a(&mut run, from, to, g);
                    }
                }
            }
        }
    }
    // ---- part (b): the main alphabet, then the edge alphabet
    for (is, s) in bs.iter().enumerate().map(|(i, s)| (n_a + i as u64, s)).chain(ebs.iter().enumerate().map(|(i, s)| (n_e + (ews.len() + i) as u64, s))) {
        if !run.unit(is) {
            continue;
        }
        if run.out_of_time() {
            break;
        }
        for g in [false, true] {
            if g && refs::has_mixed_cluster(s) {
                run.count("b:outside-stated-domain(skipped)");
                continue;
            }
            let n = refs::chars(s, g).len();
            for len in [n.wrapping_sub(1), n, n + 1] {
                if len == usize::MAX {
                    continue; // n == 0 has no shorter sequence
                }
                for code in 0..3usize.pow(len as u32) {
                    let ops = ops_from_code(code, len);
                    check_b(&mut run, s, &ops, g);
                }
            }
            run.tick();
        }
    }
    run.finish();
}
