//! C19 — BPE training is greedy-correct and always emits a well-formed merge table.
//! Engine A: every small corpus over {a, b, ' '} (pairs overlap, repeat inside words, and the corpus
//! is exhausted before the requested number of merges) x requested merges x normalisation x number
//! of counting threads, each trained twice with the real `train_bpe`; the written table is judged
//! by a recount-everything reference trainer that accepts every maximal pair, and a `BPETokenizer`
//! built from the file must be lossless and vocabulary-consistent (DESIGN 5/C19).
//!
//! Layout: `oracle_table` / `oracle_tokenizer` judge a table / merge file produced by anybody (the
//! Engine B part feeds them tables trained under a controlled schedule), `check_case` runs one case
//! of the Engine A grid, `main` enumerates.
use serde_json::{json, Value};
use std::collections::{BTreeMap, BTreeSet, HashMap};
use std::path::Path;
use text_utils::tokenization::{train_bpe, BPETokenizer, BPETokenizerConfig, SpecialConfig, Tokenize};
use text_utils::unicode::Normalization;
use tu_verif::enumerate::strings;
use tu_verif::guard::{catch, quiet_panics};
use tu_verif::refs::{self, Scratch};
use tu_verif::run::Run;

const ALPHA: [&str; 3] = ["a", "b", " "];
/// requested numbers of merges and the (vocab_size, num_special_tokens) that request them
const MERGES: [(usize, usize, usize); 6] = [(0, 256, 0), (1, 320, 63), (2, 320, 62), (3, 320, 61), (5, 320, 59), (60, 320, 4)];
/// normalisation phase: symbols NFKC rewrites (ligature fi -> "fi", fullwidth a -> "a", no-break
/// space -> space; the last is White_Space, so cleaning removes it first) next to plain ones
const NORM_ALPHA: [&str; 5] = ["a", "\u{fb01}", "\u{ff41}", "\u{a0}", " "];
const THREADS: [u8; 4] = [0, 1, 2, 3];
const RUNS: usize = 2;
/// the tokenizer built from every trained table is exercised on all strings up to this length
const TOK_MAX_LEN: usize = 4;
const D2: &str = "D2-exhausted-corpus";
/// class of the id_to_token offset defect (belongs to C04, visible through C19's last sentence)
const IDTOK: &str = "C04-id-to-token-offset";

// ------------------------------------------------------------------------------------------------
// reference trainer (recount everything after every merge; nothing incremental)
// ------------------------------------------------------------------------------------------------

/// the corpus as segmented so far: (tokens of a word, number of times the word occurs)
type Seg = Vec<(Vec<Vec<u8>>, usize)>;
type Pair = (Vec<u8>, Vec<u8>);

fn initial_segmentation(words: &BTreeMap<String, usize>) -> Seg {
    words.iter().map(|(w, c)| (w.bytes().map(|b| vec![b]).collect(), *c)).collect()
}

/// frequency of every adjacent token pair (every position counts, also overlapping ones as in `aaa`)
fn pair_freqs(c: &Seg) -> BTreeMap<Pair, usize> {
    let mut f = BTreeMap::new();
    for (w, n) in c {
        for k in 1..w.len() {
            *f.entry((w[k - 1].clone(), w[k].clone())).or_insert(0) += n;
        }
    }
    f
}

fn merge_pair(c: &Seg, p: &Pair) -> Seg {
    c.iter().map(|(w, n)| (refs::merge_pair_in_word(w, &p.0, &p.1), *n)).collect()
}

fn exhausted(c: &Seg) -> bool {
    c.iter().all(|(w, _)| w.len() <= 1)
}

/// (fewest, most) merges a greedy trainer can perform on `c` until no adjacent pair is left, over
/// all ways of breaking ties between maximal pairs
fn exhaustion_range(c: &Seg, memo: &mut HashMap<Seg, (usize, usize)>) -> (usize, usize) {
    if let Some(r) = memo.get(c) {
        return *r;
    }
    let f = pair_freqs(c);
    let r = match f.values().copied().max() {
        None => (0, 0),
        Some(mx) => {
            let (mut lo, mut hi) = (usize::MAX, 0);
            for (p, _) in f.iter().filter(|(_, n)| **n == mx) {
                let (l, h) = exhaustion_range(&merge_pair(c, p), memo);
                lo = lo.min(l + 1);
                hi = hi.max(h + 1);
            }
            (lo, hi)
        }
    };
    memo.insert(c.clone(), r);
    r
}

/// A complete greedy training run of the reference: the merged byte strings in order, and the
/// concatenations of all adjacent pairs that existed in any of the segmentations it went through.
struct GreedyRun {
    merged: Vec<Vec<u8>>,
    pairs_seen: BTreeSet<Vec<u8>>,
}

/// every complete greedy run (all tie-breaks) of the reference trainer on `c`
fn greedy_runs(c: &Seg, merged: &mut Vec<Vec<u8>>, seen: &BTreeSet<Vec<u8>>, out: &mut Vec<GreedyRun>) {
    let f = pair_freqs(c);
    let mut seen = seen.clone();
    seen.extend(f.keys().map(|(x, y)| [x.as_slice(), y.as_slice()].concat()));
    match f.values().copied().max() {
        None => out.push(GreedyRun { merged: merged.clone(), pairs_seen: seen }),
        Some(mx) => {
            for (p, _) in f.iter().filter(|(_, n)| **n == mx) {
                merged.push([p.0.as_slice(), p.1.as_slice()].concat());
                greedy_runs(&merge_pair(c, p), merged, &seen, out);
                merged.pop();
            }
        }
    }
}

/// What the reference knows about a corpus.
struct CorpusInfo {
    words: BTreeMap<String, usize>,
    /// fewest / most positive-frequency merges possible before the corpus is exhausted
    min_merges: usize,
    max_merges: usize,
    runs: Vec<GreedyRun>,
}

fn corpus_info(lines: &[String]) -> CorpusInfo {
    let words = refs::bpe_corpus_words(lines);
    let seg = initial_segmentation(&words);
    let (min_merges, max_merges) = exhaustion_range(&seg, &mut HashMap::new());
    let mut runs = vec![];
    greedy_runs(&seg, &mut vec![], &BTreeSet::new(), &mut runs);
    debug_assert_eq!(runs.iter().map(|r| r.merged.len()).min(), Some(min_merges));
    debug_assert_eq!(runs.iter().map(|r| r.merged.len()).max(), Some(max_merges));
    CorpusInfo { words, min_merges, max_merges, runs }
}

/// The exact predicate of defect class D2: the reference shows that the corpus was exhausted after
/// k < m real merges and the table is what training past that point makes of it. I.e. there is a
/// complete greedy run with k >= 1 merges, k < m, such that every entry with an id below k is that
/// run's merge with this id, every merge of the run is in the table under its own id or under an id
/// >= k (re-inserted later), every entry with an id >= k (below m) is the concatenation of a pair
/// that existed at some time during that run (by then with frequency 0), and the last of these
/// insertions, id m-1, is there (nothing can overwrite it). The predicate only classifies tables
/// that already violate a clause; the table an exhausted run should produce (its k merges and
/// nothing else) does not satisfy it.
fn is_d2_image(info: &CorpusInfo, m: usize, entries: &[(u32, Vec<u8>)]) -> bool {
    info.runs.iter().any(|run| {
        let k = run.merged.len();
        k >= 1
            && k < m
            && entries.iter().any(|(id, _)| *id as usize == m - 1)
            && entries.iter().all(|(id, key)| {
                let id = *id as usize;
                if id < k {
                    run.merged[id] == *key
                } else {
                    id < m && run.pairs_seen.contains(key)
                }
            })
            && run.merged.iter().enumerate().all(|(i, key)| entries.iter().any(|(id, e)| e == key && (*id as usize == i || *id as usize >= k)))
    })
}

struct ReplayError {
    entry: usize,
    clause: &'static str,
    detail: String,
}

/// Replays `table[i..]` on `c`. Entry i must be the concatenation of an adjacent pair whose
/// frequency is maximal (hence positive). If several different pairs with that concatenation are
/// maximal every one of them is tried. Final segmentations of accepted replays go to `finals`, the
/// error that got furthest to `err`.
fn replay(c: &Seg, table: &[Vec<u8>], i: usize, finals: &mut Vec<Seg>, err: &mut Option<ReplayError>) {
    if i == table.len() {
        finals.push(c.clone());
        return;
    }
    let e = &table[i];
    let show = String::from_utf8_lossy(e).to_string();
    let f = pair_freqs(c);
    let mx = f.values().copied().max().unwrap_or(0);
    let cands: Vec<(&Pair, usize)> = f.iter().filter(|((x, y), _)| [x.as_slice(), y.as_slice()].concat() == *e).map(|(p, n)| (p, *n)).collect();
    let mut fail = |re: ReplayError| {
        if err.as_ref().map(|o| o.entry <= re.entry).unwrap_or(true) {
            *err = Some(re);
        }
    };
    if cands.is_empty() {
        fail(ReplayError {
            entry: i,
            clause: "entry-is-occurring-pair",
            detail: format!("entry {i} ({show:?}) is not the concatenation of any adjacent token pair of the corpus as segmented by merges 0..{i} (its frequency is 0; maximal pair frequency there: {mx})"),
        });
        return;
    }
    let best = cands.iter().map(|c| c.1).max().unwrap();
    if best != mx {
        fail(ReplayError {
            entry: i,
            clause: "entry-has-maximal-frequency",
            detail: format!("entry {i} ({show:?}) has frequency {best} in the corpus as segmented by merges 0..{i}, but the maximal pair frequency is {mx}"),
        });
        return;
    }
    for (p, n) in cands {
        if n == mx {
            replay(&merge_pair(c, p), table, i + 1, finals, err);
        }
    }
}

/// one violated oracle clause: (clause, class, detail)
type Finding = (String, String, String);

fn show_table(entries: &[(u32, Vec<u8>)]) -> String {
    let v: Vec<String> = entries.iter().map(|(i, e)| format!("{:?}:{i}", String::from_utf8_lossy(e))).collect();
    format!("{{{}}}", v.join(", "))
}

/// The table part of the oracle, given what the reference knows about the corpus.
/// `entries` = (merge id, merged bytes) sorted by id, as `refs::load_merge_file` returns them.
fn oracle_table_with(info: &CorpusInfo, requested_merges: usize, entries: &[(u32, Vec<u8>)]) -> Vec<Finding> {
    let m = requested_merges;
    let class = if is_d2_image(info, m, entries) { D2 } else { "" };
    let mut out: Vec<Finding> = vec![];
    let n = entries.len();
    if n > m {
        out.push(("at-most-requested-merges".into(), class.into(), format!("{n} entries for {m} requested merges: {}", show_table(entries))));
    }
    // ids exactly 0..n-1
    let contiguous = entries.iter().enumerate().all(|(i, e)| e.0 as usize == i);
    if !contiguous {
        out.push(("ids-are-0-to-n-1".into(), class.into(), format!("merge ids are not exactly 0..{}: {}", n as i64 - 1, show_table(entries))));
    }
    // replay the longest prefix that has ids 0,1,2,.. (the i-th entry is only defined there)
    let k = entries.iter().enumerate().take_while(|(i, e)| e.0 as usize == *i).count();
    let table: Vec<Vec<u8>> = entries[..k].iter().map(|e| e.1.clone()).collect();
    let (mut finals, mut err) = (vec![], None);
    replay(&initial_segmentation(&info.words), &table, 0, &mut finals, &mut err);
    if finals.is_empty() {
        let e = err.expect("replay without result");
        out.push((e.clause.into(), class.into(), format!("{}; table {}", e.detail, show_table(entries))));
    } else if contiguous && n < m && !finals.iter().any(exhausted) {
        // stops only when the corpus is exhausted
        let left = pair_freqs(&finals[0]);
        out.push((
            "stops-only-when-exhausted".into(),
            class.into(),
            format!("only {n} of {m} requested merges although adjacent pairs are left (e.g. {:?}); table {}", left.iter().next().map(|((x, y), f)| (String::from_utf8_lossy(x).to_string(), String::from_utf8_lossy(y).to_string(), *f)), show_table(entries)),
        ));
    }
    out
}

/// The table part of the oracle for a table produced elsewhere (Engine B): corpus lines as written
/// to the training file, the requested number of merges, and the loaded table sorted by id.
#[allow(dead_code)]
fn oracle_table(lines: &[String], requested_merges: usize, table_entries: &[(u32, Vec<u8>)]) -> Vec<Finding> {
    oracle_table_with(&corpus_info(lines), requested_merges, table_entries)
}

/// The tokenizer part of the oracle: a `BPETokenizer` built from `merge_file` is lossless on every
/// string over the alphabet up to `TOK_MAX_LEN` symbols and its vocabulary maps are consistent.
/// Returns (clause, class, detail) with class "" or the id_to_token class; the caller adds D2.
fn oracle_tokenizer(merge_file: &Path, texts: &[String]) -> Vec<Finding> {
    let mut out: Vec<Finding> = vec![];
    let cfg = BPETokenizerConfig { merge_file: merge_file.to_path_buf(), max_vocab_size: None, use_graphemes: true };
    let tok = match catch(|| BPETokenizer::new(cfg, SpecialConfig::default())) {
        Err(p) => {
            out.push(("tokenizer-builds".into(), "".into(), format!("BPETokenizer::new panicked: {p}")));
            return out;
        }
        Ok(Err(e)) => {
            out.push(("tokenizer-builds".into(), "".into(), format!("BPETokenizer::new failed: {e}")));
            return out;
        }
        Ok(Ok(t)) => t,
    };
    let vs = tok.vocab_size();
    // vocabulary consistency
    match catch(|| tok.get_vocab()) {
        Err(p) => out.push(("vocab-consistent".into(), "".into(), format!("get_vocab panicked: {p}"))),
        Ok(Err(e)) => out.push(("vocab-consistent".into(), "".into(), format!("get_vocab failed: {e}"))),
        Ok(Ok(vocab)) => {
            if vocab.len() != vs {
                out.push(("vocab-consistent".into(), "".into(), format!("get_vocab has {} entries, vocab_size is {vs}", vocab.len())));
            }
            let mut reported = false;
            for id in 0..(vs as u32 + 2) {
                let got = catch(|| tok.id_to_token(id));
                let want = vocab.get(id as usize).cloned();
                let ok = matches!(&got, Ok(g) if *g == want);
                if !ok && !reported {
                    reported = true;
                    // class: the observed value is exactly the vocabulary entry 256 places earlier
                    // (id_to_token indexes the 256-byte-prefixed token list with id - 256)
                    let shifted = id >= 256 && matches!(&got, Ok(Some(g)) if Some(g) == vocab.get(id as usize - 256));
                    out.push((
                        "id-to-token-equals-vocab".into(),
                        if shifted { IDTOK.into() } else { "".into() },
                        format!("id_to_token({id}) = {:?}, get_vocab()[{id}] = {:?} (vocab_size {vs})", got.map(|o| o.map(|b| String::from_utf8_lossy(&b).to_string())), want.map(|b| String::from_utf8_lossy(&b).to_string())),
                    ));
                }
            }
        }
    }
    // lossless, ids inside the vocabulary
    let (mut lossless_bad, mut id_bad) = (false, false);
    for s in texts {
        let ids = match catch(|| tok.tokenize(s, true)) {
            Err(p) => {
                out.push(("no-panic".into(), "".into(), format!("tokenize({s:?}) panicked: {p}")));
                break;
            }
            Ok(Err(e)) => {
                out.push(("lossless".into(), "".into(), format!("tokenize({s:?}) failed: {e}")));
                break;
            }
            Ok(Ok(t)) => t.token_ids,
        };
        if !id_bad && ids.iter().any(|i| *i as usize >= vs) {
            id_bad = true;
            out.push(("ids-below-vocab-size".into(), "".into(), format!("tokenize({s:?}) = {ids:?} with vocab_size {vs}")));
        }
        let dec = catch(|| tok.de_tokenize(&ids, true));
        let ok = matches!(&dec, Ok(Ok(d)) if d == s.trim_end());
        if !ok && !lossless_bad {
            lossless_bad = true;
            out.push(("lossless".into(), "".into(), format!("tokenize({s:?}) = {ids:?}, de_tokenize gives {:?}, expected {:?}", dec.map(|r| r.map_err(|e| e.to_string())), s.trim_end())));
        }
    }
    out
}

// ------------------------------------------------------------------------------------------------
// one case
// ------------------------------------------------------------------------------------------------

#[derive(Clone, Debug)]
struct Case {
    lines: Vec<String>,
    vocab_size: usize,
    num_special_tokens: usize,
    nfkc: bool,
    num_threads: u8,
    /// how `lines` are cut into files (lengths), None = one file
    cut: Option<Vec<usize>>,
    /// `max_lines_per_file`; the corpus is then the first so many lines of every file
    max_lines: Option<usize>,
    /// line termination per file (`filesets::TERM_*`), empty = LF everywhere
    term: Vec<u8>,
}

impl Case {
    fn plain(lines: Vec<String>, vocab_size: usize, num_special_tokens: usize, nfkc: bool, num_threads: u8) -> Case {
        Case { lines, vocab_size, num_special_tokens, nfkc, num_threads, cut: None, max_lines: None, term: vec![] }
    }
    /// the files as lists of lines
    fn files(&self) -> Vec<Vec<String>> {
        match &self.cut {
            None => vec![self.lines.clone()],
            Some(c) => {
                let mut i = 0;
                c.iter()
                    .map(|n| {
                        i += n;
                        self.lines[i - n..i].to_vec()
                    })
                    .collect()
            }
        }
    }
    /// the lines training has to count: the first `max_lines` lines of every file, as they look
    /// after the requested normalisation (whitespace is dealt with by the word splitting)
    fn corpus_lines(&self) -> Vec<String> {
        let lines = self.files().iter().flat_map(|f| f.iter().take(self.max_lines.unwrap_or(usize::MAX)).cloned()).collect::<Vec<String>>();
        if self.nfkc {
            lines.iter().map(|l| nfkc_ref(l)).collect()
        } else {
            lines
        }
    }
    fn requested_merges(&self) -> usize {
        self.vocab_size.saturating_sub(256).saturating_sub(self.num_special_tokens)
    }
    fn json(&self) -> Value {
        json!({"lines": self.lines, "vocab_size": self.vocab_size, "num_special_tokens": self.num_special_tokens,
               "requested_merges": self.requested_merges(),
               "normalization": if self.nfkc { json!("nfkc") } else { Value::Null }, "num_threads": self.num_threads, "runs": RUNS,
               "lines_per_file": self.cut, "max_lines_per_file": self.max_lines,
               "line_termination_per_file": self.term.iter().map(|t| tu_verif::filesets::term_name(*t)).collect::<Vec<_>>()})
    }
    fn from_json(v: &Value) -> Case {
        Case {
            lines: v["lines"].as_array().unwrap().iter().map(|l| l.as_str().unwrap().to_string()).collect(),
            vocab_size: v["vocab_size"].as_u64().unwrap() as usize,
            num_special_tokens: v["num_special_tokens"].as_u64().unwrap() as usize,
            nfkc: !v["normalization"].is_null(),
            num_threads: v["num_threads"].as_u64().unwrap() as u8,
            cut: v["lines_per_file"].as_array().map(|a| a.iter().map(|n| n.as_u64().unwrap() as usize).collect()),
            max_lines: v["max_lines_per_file"].as_u64().map(|n| n as usize),
            term: v["line_termination_per_file"].as_array().map(|a| a.iter().map(|t| tu_verif::filesets::term_from_name(t.as_str())).collect()).unwrap_or_default(),
        }
    }
}

/// NFKC on the symbols of the alphabets of this check, written out by hand
fn nfkc_ref(s: &str) -> String {
    s.chars()
        .map(|c| match c {
            '\u{fb01}' => "fi".to_string(),
            '\u{ff41}' => "a".to_string(),
            '\u{a0}' => " ".to_string(),
            c => c.to_string(),
        })
        .collect()
}

/// scratch files, the strings the tokenizers are exercised on, and caches (reference knowledge about
/// the current corpus; verdicts of the tokenizer oracle per distinct table)
struct Ctx {
    scratch: Scratch,
    texts: Vec<String>,
    info: Option<(Vec<String>, CorpusInfo)>,
    tok_verdicts: HashMap<Vec<(u32, Vec<u8>)>, Vec<Finding>>,
}

impl Ctx {
    fn new() -> Ctx {
        Ctx { scratch: Scratch::new("c19"), texts: strings(&ALPHA, TOK_MAX_LEN), info: None, tok_verdicts: HashMap::new() }
    }
}

fn check_case(run: &mut Run, ctx: &mut Ctx, case: &Case) {
    run.evaluations += 1;
    let corpus_lines = case.corpus_lines();
    if ctx.info.as_ref().map(|(l, _)| l != &corpus_lines).unwrap_or(true) {
        ctx.info = Some((corpus_lines.clone(), corpus_info(&corpus_lines)));
    }
    let m = case.requested_merges();
    let (min_merges, max_merges) = {
        let info = &ctx.info.as_ref().unwrap().1;
        (info.min_merges, info.max_merges)
    };
    if m >= 1 && max_merges >= 1 {
        run.nontrivial += 1;
    }
    if max_merges < m {
        run.count("cases: corpus exhausted before the requested merges on every greedy path");
    } else if min_merges < m {
        run.count("cases: corpus exhausted before the requested merges on some greedy paths only");
    } else {
        run.count("cases: corpus supplies all requested merges");
    }
    run.sample(|| case.json());
    let out = ctx.scratch.path("merges.bin");
    let files = case.files();
    let paths: Vec<std::path::PathBuf> = (0..files.len()).map(|i| ctx.scratch.path(&format!("corpus{i}.txt"))).collect();
    for (i, (p, f)) in paths.iter().zip(&files).enumerate() {
        std::fs::write(p, tu_verif::filesets::file_body(f, case.term.get(i).copied().unwrap_or(tu_verif::filesets::TERM_LF))).expect("cannot write corpus");
    }
    if files.len() > 1 {
        run.count("cases with several files");
    }
    if case.term.iter().any(|t| *t != tu_verif::filesets::TERM_LF) {
        run.count("cases with an unterminated last line or CRLF line ends");
    }
    if case.max_lines.map(|m| files.iter().any(|f| f.len() > m)).unwrap_or(false) {
        run.count("cases where max_lines_per_file drops lines");
    }
    let mut tables: Vec<Vec<(u32, Vec<u8>)>> = vec![];
    for r in 0..RUNS {
        let _ = std::fs::remove_file(&out);
        let norm = if case.nfkc { Some(Normalization::NFKC) } else { None };
        run.calls += 1;
        run.tick();
        let res = catch(|| train_bpe(&paths, case.vocab_size, case.num_special_tokens, &out, case.max_lines, norm, case.num_threads, false));
        quiet_panics(); // train_bpe installs its own printing hook
        match res {
            Err(p) => {
                run.violation("no-panic", "", case.json(), format!("run {r}: train_bpe panicked: {p}"));
                continue;
            }
            Ok(Err(e)) => {
                run.violation("training-succeeds", "", case.json(), format!("run {r}: train_bpe returned an error: {e}"));
                continue;
            }
            Ok(Ok(())) => {}
        }
        let entries = match refs::load_merge_file(&out) {
            Ok(e) => e,
            Err(e) => {
                run.violation("table-written", "", case.json(), format!("run {r}: the merge file cannot be loaded: {e}"));
                continue;
            }
        };
        run.compared += 1;
        run.outcome(&(&corpus_lines, &entries));
        run.count(&format!("tables with {} entries", entries.len()));
        let info = &ctx.info.as_ref().unwrap().1;
        let class = if is_d2_image(info, m, &entries) { D2 } else { "" };
        if !class.is_empty() {
            run.count("tables that are the image of an exhausted greedy run trained on (D2 predicate)");
        }
        for (clause, class, detail) in oracle_table_with(info, m, &entries) {
            run.violation(&clause, &class, case.json(), format!("run {r}: {detail}"));
        }
        // tokenizer built from the written file (verdict cached per distinct table)
        if !ctx.tok_verdicts.contains_key(&entries) {
            run.calls += 1 + 2 * ctx.texts.len() as u64;
            let v = oracle_tokenizer(&out, &ctx.texts);
            ctx.tok_verdicts.insert(entries.clone(), v);
            run.count("distinct tables put through the tokenizer oracle");
        }
        for (clause, cls, detail) in &ctx.tok_verdicts[&entries] {
            // a defect class of its own stays; everything else is D2 iff the table satisfies the D2 predicate
            let class = if !cls.is_empty() { cls.as_str() } else { class };
            run.violation(clause, class, case.json(), format!("run {r}: table {}: {detail}", show_table(&entries)));
        }
        tables.push(entries);
    }
    if tables.len() == 2 && tables[0] != tables[1] {
        run.count("cases whose two runs wrote different tables (tie-breaks)");
    }
}

// ------------------------------------------------------------------------------------------------
// Engine B: the counting workers under the controlled scheduler (DESIGN 4.5)
// ------------------------------------------------------------------------------------------------

/// (corpus lines, requested merges, worker threads, preemption bound)
fn sched_units(quick: bool) -> Vec<(Vec<String>, usize, usize, usize)> {
    let l = |v: &[&str]| v.iter().map(|s| s.to_string()).collect::<Vec<String>>();
    // a bound of 99 preemptions is no bound at all for these short executions: every interleaving
    let mut u = vec![
        (l(&["ab ab", "ab b", "a ab"]), 3, 2, 99),
        (l(&["aa", "a aa", "aa a"]), 5, 2, 99),
        (l(&["ab", "ba", "ab ba"]), 2, 3, if quick { 2 } else { 99 }),
        // more lines than the channel holds, every line with the same word
        (l(&["ab", "ab", "ab", "ab"]), 2, 1, 99),
        (l(&["ab b", "ab", "b ab", "ab", "ab"]), 3, 2, if quick { 1 } else { 99 }),
        // every line has a word of its own with a frequency of its own (2, 3, 5) and training runs to
        // exhaustion: a line whose counts are lost shows as a missing merge, a line counted twice or
        // credited to another word as a wrong order (more lines than the channel holds with 1 worker)
        (l(&["ab ab", "cd cd cd", "ef ef ef ef ef"]), 60, 1, 99),
        (l(&["ab ab", "cd cd cd", "ef ef ef ef ef"]), 60, 2, if quick { 2 } else { 99 }),
    ];
    if !quick {
        u.push((l(&["abab", "ba", "b ab", "a"]), 60, 2, 99));
        u.push((l(&["a b", "b a", "ab", "ba"]), 3, 3, 3));
        u.push((l(&["ab", "ab"]), 1, 4, 3));
    }
    u
}

fn check_sched(run: &mut Run, ctx: &mut Ctx, lines: &[String], m: usize, workers: usize, bound: usize, controlled_reducer: bool, replay: Option<Vec<usize>>) {
    use text_utils::verif::ThreadKind;
    let info = corpus_info(lines);
    let corpus = ctx.scratch.path("sched_corpus.txt");
    let out = ctx.scratch.path("sched_merges.bin");
    std::fs::write(&corpus, lines.iter().map(|l| format!("{l}\n")).collect::<String>()).expect("cannot write corpus");
    let (vocab_size, specials) = (320usize, 64 - m);
    let unit_json = json!({"sched": true, "lines": lines, "requested_merges": m, "workers": workers, "bound": bound, "controlled_reducer": controlled_reducer});
    let runp: *mut Run = run;
    let runp2: *mut Run = runp;
    let make_body = || {
        let (corpus, out) = (corpus.clone(), out.clone());
        move || -> Result<Vec<(u32, Vec<u8>)>, String> {
            let _ = std::fs::remove_file(&out);
            train_bpe(&[&corpus], vocab_size, specials, &out, None, None, workers as u8, false).map_err(|e| format!("train_bpe error: {e}"))?;
            refs::load_merge_file(&out)
        }
    };
    let mut tables: std::collections::BTreeSet<Vec<(u32, Vec<u8>)>> = Default::default();
    let mut check = |x: &tu_verif::sched::Exec<Result<Vec<(u32, Vec<u8>)>, String>>, _p: &[usize]| -> bool {
        let run = unsafe { &mut *runp };
        run.evaluations += 1;
        run.calls += 1;
        run.compared += 1;
        if x.preemptions() > 0 {
            run.nontrivial += 1;
        }
        let case = || {
            let mut c = unit_json.clone();
            c["choices"] = json!(x.choices());
            c["schedule"] = json!(x.schedule());
            c
        };
        run.sample(|| case());
        if let Some(h) = &x.halt {
            let machinery = matches!(h, tu_verif::sched::Halt::Divergence(_));
            run.violation(if machinery { "machinery-replay-divergence" } else { "counting-schedule-terminates" }, if machinery { "machinery" } else { "" }, case(), format!("{h:?}"));
            return false;
        }
        match (&x.result, &x.body_panic) {
            (_, Some(p)) => {
                run.violation("no-panic", "", case(), format!("train_bpe panicked under this schedule: {p}"));
                return false;
            }
            (Some(Ok(entries)), _) => {
                tables.insert(entries.clone());
                for (clause, class, detail) in oracle_table_with(&info, m, entries) {
                    run.violation(&clause, &class, case(), format!("under this schedule of the counting workers: {detail}"));
                }
            }
            (Some(Err(e)), _) => {
                run.violation("training-succeeds", "", case(), e.clone());
            }
            (None, None) => {}
        }
        run.num_violations() < 4
    };
    if let Some(choices) = replay {
        // the schedule is owned, the HashMap seeds that break frequency ties inside train_bpe are
        // not: the same schedule is repeated until the violation shows (as for the Engine A cases)
        for _ in 0..16 {
            let x = tu_verif::countsched::exec_mode(ThreadKind::BpeCounter, workers, controlled_reducer, &choices, make_body());
            quiet_panics();
            if x.choices() != choices {
                unsafe { &mut *runp2 }.violation("machinery-replay-divergence", "machinery", unit_json.clone(), format!("replayed {:?}", x.choices()));
            }
            check(&x, &choices);
            if unsafe { &*runp2 }.num_violations() > 0 {
                break;
            }
        }
        return;
    }
    let stats = if controlled_reducer {
        tu_verif::countsched::explore_controlled(ThreadKind::BpeCounter, workers, bound, run.deadline(), make_body, &mut check)
    } else {
        tu_verif::countsched::explore(ThreadKind::BpeCounter, workers, bound, run.deadline(), make_body, &mut check)
    };
    quiet_panics();
    run.count_n("scheduler:executions", stats.executions);
    run.count_n("scheduler:transitions", stats.transitions);
    if stats.out_of_time {
        run.capped = Some(format!("time budget reached in scheduler unit {unit_json}"));
    }
    let mut per = run.extra.remove("scheduler_units").and_then(|v| v.as_array().cloned()).unwrap_or_default();
    per.push(json!({"unit": unit_json, "executions": stats.executions, "max_depth": stats.max_depth, "distinct_tables": tables.len(), "completed": !stats.stopped_early}));
    run.extra.insert("scheduler_units".into(), json!(per));
}

fn main() {
    let mut run = Run::from_env("C19");
    if let Some(c) = run.replay_case() {
        if c.get("sched").is_some() {
            let mut ctx = Ctx::new();
            let lines: Vec<String> = c["lines"].as_array().unwrap().iter().map(|l| l.as_str().unwrap().to_string()).collect();
            let choices = c["choices"].as_array().map(|a| a.iter().map(|v| v.as_u64().unwrap() as usize).collect()).unwrap_or_default();
            check_sched(&mut run, &mut ctx, &lines, c["requested_merges"].as_u64().unwrap() as usize, c["workers"].as_u64().unwrap() as usize, c["bound"].as_u64().unwrap() as usize, c["controlled_reducer"].as_bool().unwrap_or(false), Some(choices));
            drop(ctx);
            run.finish();
        }
        // which maximal pair wins a tie depends on per-process HashMap seeds: repeat the case until
        // a violation shows (a violating tie-break that has probability 1/2 per run is then missed
        // with probability 2^-64)
        let mut ctx = Ctx::new();
        for _ in 0..32 {
            check_case(&mut run, &mut ctx, &Case::from_json(&c));
            if run.num_violations() > 0 {
                break;
            }
        }
        drop(ctx);
        run.finish();
    }
    let one_line_max = run.pick(6, 8);
    let two_line_max = run.pick(3, 4);
    // corpora in order of size: the one-line files, then the two-line files
    let mut corpora: Vec<Vec<String>> = strings(&ALPHA, one_line_max).into_iter().map(|s| vec![s]).collect();
    let short = strings(&ALPHA, two_line_max);
    for x in &short {
        for y in &short {
            corpora.push(vec![x.clone(), y.clone()]);
        }
    }
    // quick only (the thorough two-line family contains it): a first line of at most 2 symbols and a
    // second line of exactly 4 -- the smallest corpora in which a pair occurs overlapping itself
    // (xyxy) while its mirror image yx is a word of its own
    if run.quick() {
        for x in strings(&ALPHA, 2) {
            for y in strings(&ALPHA, 4).into_iter().filter(|y| y.chars().count() == 4) {
                corpora.push(vec![x.clone(), y]);
            }
        }
    }
    let sus = sched_units(run.quick());
    // file phase: the same lines cut into files in every way x max_lines_per_file x every way of
    // terminating the lines; one unit per list of lines
    let file_lists: Vec<Vec<String>> = {
        let mut v = vec![];
        let two = strings(&ALPHA, run.pick(2, 3));
        for x in &two {
            for y in &two {
                v.push(vec![x.clone(), y.clone()]);
            }
        }
        let three = if run.quick() { strings(&["a", "b"], 1) } else { strings(&ALPHA, 1) };
        for x in &three {
            for y in &three {
                for z in &three {
                    v.push(vec![x.clone(), y.clone(), z.clone()]);
                }
            }
        }
        v
    };
    let file_cases = |lines: &Vec<String>| -> Vec<Case> {
        let mut v = vec![];
        for files in tu_verif::filesets::compositions(lines) {
            let cut: Vec<usize> = files.iter().map(|f| f.len()).collect();
            let mut terms = vec![vec![]];
            terms.extend(tu_verif::filesets::term_patterns(&files));
            for max_lines in [None, Some(1usize)] {
                for term in &terms {
                    if files.len() == 1 && max_lines.is_none() && term.is_empty() {
                        continue; // the plain phase
                    }
                    for (_, vocab_size, num_special_tokens) in [MERGES[1], MERGES[5]] {
                        for num_threads in [1u8, 2] {
                            v.push(Case { lines: lines.clone(), vocab_size, num_special_tokens, nfkc: false, num_threads, cut: Some(cut.clone()), max_lines, term: term.clone() });
                        }
                    }
                }
            }
        }
        v
    };
    // normalisation phase: one-line corpora with symbols that NFKC rewrites; one unit per corpus
    let mut norm_lines: Vec<String> = strings(&NORM_ALPHA, run.pick(3, 4)).into_iter().filter(|l| l.chars().any(|c| !c.is_ascii())).collect();
    // two spellings of one word in one line (the counts of a line are merged per normalised word):
    // long enough for a bare first word, two spellings with a leading space and a competing pair
    norm_lines.extend(strings(&["a", "\u{ff41}", " "], run.pick(6, 7)).into_iter().filter(|l| l.chars().count() >= 5 && l.contains('\u{ff41}') && l.contains("a")));
    norm_lines.extend(strings(&["fi", "\u{fb01}", " "], run.pick(4, 5)).into_iter().filter(|l| l.contains('\u{fb01}') && l.contains("fi")));
    if let Some(n) = run.describe_unit() {
        if n as usize >= corpora.len() + sus.len() + file_lists.len() {
            println!("{}", json!({"lines": [norm_lines.get(n as usize - corpora.len() - sus.len() - file_lists.len())], "grid": "requested merges {1, 3, 60} x normalization {none, nfkc} x num_threads {1, 2}, each trained twice"}));
            return;
        }
    }
    if let Some(n) = run.describe_unit() {
        if n as usize >= corpora.len() + sus.len() {
            println!("{}", json!({"lines": file_lists.get(n as usize - corpora.len() - sus.len()), "grid": "every cut into files x max_lines_per_file {none, 1} x line termination patterns x requested merges {1, 60} x num_threads {1, 2}, each trained twice"}));
            return;
        }
        if n as usize >= corpora.len() {
            let u = &sus[n as usize - corpora.len()];
            println!("{}", json!({"scheduler_unit": {"lines": u.0, "requested_merges": u.1, "workers": u.2, "bound": u.3}}));
            return;
        }
        println!("{}", json!({"lines": corpora.get(n as usize), "grid": "requested merges {0,1,2,3,5,60} x normalization {none, nfkc} x num_threads {0,1,2,3}, each trained twice"}));
        return;
    }
    // the reference ignores normalisation: it must be the identity on the alphabet
    for s in ALPHA {
        assert_eq!(text_utils::unicode::normalize(s, Normalization::NFKC, true), s);
    }
    run.bounds.insert("alphabet".into(), json!(ALPHA));
    run.bounds.insert("one_line_corpora_max_symbols".into(), json!(one_line_max));
    run.bounds.insert("two_line_corpora_max_symbols_per_line".into(), json!(two_line_max));
    if run.quick() {
        run.bounds.insert("two_line_corpora_extra".into(), json!("first line of at most 2 symbols, second line of exactly 4 symbols"));
    }
    run.bounds.insert("corpora".into(), json!(corpora.len()));
    run.bounds.insert("file_phase_line_lists".into(), json!(file_lists.len()));
    run.bounds.insert("normalization_phase".into(), json!(format!("{} one-line corpora (over {NORM_ALPHA:?} with at most {} symbols and at least one non-ASCII symbol; over [a, fullwidth a, space] and [fi, ligature fi, space] with both spellings in the line) x requested merges {{1, 3, 60}} x normalization {{none, nfkc}} x num_threads {{1, 2}}", norm_lines.len(), run.pick(3, 4))));
    run.bounds.insert("file_phase".into(), json!(format!("2 lines of at most {} symbols each, 3 lines of at most 1 symbol each; every cut into files x max_lines_per_file {{none, 1}} x every line-termination pattern (any set of files with an unterminated last line; CRLF) x requested merges {{1, 60}} x num_threads {{1, 2}}", run.pick(2, 3))));
    run.bounds.insert("requested_merges".into(), json!(MERGES.iter().map(|m| json!({"merges": m.0, "vocab_size": m.1, "num_special_tokens": m.2})).collect::<Vec<_>>()));
    run.bounds.insert("normalization".into(), json!(["none", "nfkc"]));
    run.bounds.insert("num_threads".into(), json!(THREADS));
    run.bounds.insert("runs_per_case".into(), json!(RUNS));
    run.bounds.insert("tokenizer_texts".into(), json!(format!("all strings over the alphabet with at most {TOK_MAX_LEN} symbols")));
    run.extra.insert(
        "rule".into(),
        json!("every corpus (one file of one line up to the one-line bound, or of two lines up to the two-line bound each, shortlex; quick adds the two-line files with at most 2 + exactly 4 symbols) x requested merges x normalization x num_threads, each trained twice with the real train_bpe (HashMap seeds differ between runs; both tables must satisfy the oracle); a case is non-trivial when at least one merge is requested and the corpus has at least one adjacent pair; evaluations = cases, compared = tables judged"),
    );
    run.assumptions.push("the corpus words are the whitespace-separated words of each (normalised) line, the first bare and the others with one leading space (refs::bpe_corpus_words); NFKC is the identity on the main alphabet and the hand-written map on the normalisation alphabet (both asserted against the crate's normalize)".into());
    run.assumptions.push("pair frequency counts every adjacent position (overlapping occurrences as in 'aaa' count twice); any pair of maximal frequency is accepted at every step".into());
    run.bounds.insert("scheduler_units".into(), json!(sus.iter().map(|u| json!({"lines": u.0, "requested_merges": u.1, "workers": u.2, "preemption_bound": u.3})).collect::<Vec<_>>()));
    run.assumptions.push("scheduler part: only the counting workers are controlled, the reducer (calling thread) runs freely and always receives, so the order of messages it sees is the controlled order of sends; sequentially consistent exploration of the instrumented primitives".into());
    let mut ctx = Ctx::new();
    // Engine B first: every schedule of the counting workers up to the preemption bound
    let cb = if run.quick() { 2 } else { 3 };
    for (j, u) in sus.iter().enumerate() {
        if !run.unit((corpora.len() + j) as u64) {
            continue;
        }
        check_sched(&mut run, &mut ctx, &u.0, u.1, u.2, u.3, false, None);
        // the same scenario with the reducer (the calling thread) controlled as well: its spawns and
        // receives are scheduling points and the count channel is the real bounded channel
        check_sched(&mut run, &mut ctx, &u.0, u.1, u.2, u.3.min(if u.2 >= 3 { cb - 1 } else { cb }), true, None);
    }
    for s in NORM_ALPHA {
        assert_eq!(text_utils::unicode::normalize(s, Normalization::NFKC, true), nfkc_ref(s));
    }
    for (k, line) in norm_lines.iter().enumerate() {
        if !run.unit((corpora.len() + sus.len() + file_lists.len() + k) as u64) {
            continue;
        }
        if run.out_of_time() {
            break;
        }
        for (_, vocab_size, num_special_tokens) in [MERGES[1], MERGES[3], MERGES[5]] {
            for nfkc in [false, true] {
                for num_threads in [1u8, 2] {
                    check_case(&mut run, &mut ctx, &Case::plain(vec![line.clone()], vocab_size, num_special_tokens, nfkc, num_threads));
                }
            }
        }
    }
    // many lines / long words: counts around the powers of two a size threshold would sit at (lines
    // handed to the workers in blocks, words counted in chunks)
    {
        let lens = tu_verif::enumerate::threshold_lengths(run.pick(8, 10));
        run.bounds.insert("many_lines_phase".into(), json!(format!("n in {lens:?}: n lines of the pattern [ab ab, ba, ab b, (empty)] and one line with one word of min(n, 257) symbols (ab repeated) plus the word ab x requested merges {{1, 3, 60}} x num_threads {{1, 2, 3, 16, 17, 255}}")));
        let base = corpora.len() + sus.len() + file_lists.len() + norm_lines.len();
        for (k, n) in lens.iter().enumerate() {
            let pat = ["ab ab", "ba", "ab b", ""];
            let many: Vec<String> = (0..*n).map(|i| pat[i % pat.len()].to_string()).collect();
            // (the recount-everything reference is quadratic in the word length per merge: the long
            // word stops at 2^8 symbols in both tiers)
            let long_word = vec![format!("{} ab", tu_verif::enumerate::repeat_symbols(&["a", "b"], (*n).min(257)))];
            for (li, lines) in [many, long_word].into_iter().enumerate() {
                for (mi, (_, vocab_size, num_special_tokens)) in [MERGES[1], MERGES[3], MERGES[5]].into_iter().enumerate() {
                    // (a unit per count, corpus and merge budget: they are heavy)
                    if !run.unit((base + 6 * k + 3 * li + mi) as u64) {
                        continue;
                    }
                    // (thread counts around a power of two and the largest the parameter type holds)
                    for num_threads in [1u8, 2, 3, 16, 17, 255] {
                        check_case(&mut run, &mut ctx, &Case::plain(lines.clone(), vocab_size, num_special_tokens, false, num_threads));
                    }
                }
            }
        }
    }
    for (k, lines) in file_lists.iter().enumerate() {
        if !run.unit((corpora.len() + sus.len() + k) as u64) {
            continue;
        }
        if run.out_of_time() {
            break;
        }
        for case in file_cases(lines) {
            check_case(&mut run, &mut ctx, &case);
        }
    }
    for (iu, lines) in corpora.iter().enumerate() {
        if !run.unit(iu as u64) {
            continue;
        }
        if run.out_of_time() {
            break;
        }
        for (_, vocab_size, num_special_tokens) in MERGES {
            for nfkc in [false, true] {
                for num_threads in THREADS {
                    check_case(&mut run, &mut ctx, &Case::plain(lines.clone(), vocab_size, num_special_tokens, nfkc, num_threads));
                }
            }
        }
    }
    drop(ctx);
    run.finish();
}
