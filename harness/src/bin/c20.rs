//! C20 — Dictionary creation counts exactly, keeps the top entries, for any thread count.
//! Engine A: every small set of files over {a, b, A, '-', ' '} x max_size x max_sequences x
//! num_threads x {words, chars(1), chars(3)} on the real `Dictionary::create`, judged against a
//! harness-side count over the crate's public `clean`, `normalize`, `split_words`; plus save/load
//! round trip and `get_closest` against the reference edit distance on every query over {a, b, A}
//! (DESIGN 5/C20).
//!
//! Layout: `reference_counts` / `oracle_dictionary` / `oracle_closest` / `oracle_round_trip` judge a
//! dictionary produced by anybody (the Engine B part feeds them dictionaries created under a
//! controlled schedule), `check_case` runs one case of the Engine A grid (all thread counts of one
//! configuration, so that they can be compared), `main` enumerates. Every `max_size = None` case is
//! an enumeration unit of its own: should it abort the process, the journal names exactly that case.
use serde_json::{json, Value};
use std::collections::{BTreeMap, HashSet};
use text_utils::dictionary::{Dictionary, DictionaryDistanceMeasure};
use text_utils::text::{clean, split_words};
use text_utils::unicode::{normalize, Normalization};
use tu_verif::enumerate::strings;
use tu_verif::guard::catch;
use tu_verif::refs::{self, Scratch};
use tu_verif::run::Run;

const ALPHA: [&str; 5] = ["a", "b", "A", "-", " "];
const CLUSTER_ALPHA: [&str; 3] = ["a", "x\u{301}", " "];
/// (U+00B4, a spacing accent: NFKC rewrites it to a space plus a combining mark -- the order of
/// cleaning and normalising matters for it)
const WIDE_ALPHA: [&str; 6] = ["ä", "Ä", "\u{fb01}", "1", " ", "\u{b4}"];
/// closest-entry phase: dictionaries are all sets of up to 3 of these words (1 to 4 bytes per
/// character, different lengths in bytes and in characters) with frequencies 1 or 2
const CLOSEST_WORDS: [&str; 10] = ["a", "b", "ab", "cd", "ä", "äb", "日", "日本", "日本c", "\u{10400}\u{10400}"];
const CLOSEST_QUERIES: [&str; 12] = ["", "a", "b", "ab", "bb", "abc", "xyz", "ä", "日", "日本", "本c", "\u{10400}"];
/// format phase: characters a line-oriented "key TAB count" file format could mistake for syntax
/// (comment markers, quotes, a backslash) next to a letter
const FORMAT_ALPHA: [&str; 7] = ["#", ";", "\"", "\\", "/", "a", " "];
const QUERY_ALPHA: [&str; 3] = ["a", "b", "A"];
const QUERY_MAX_LEN: usize = 3;
const MAX_SIZES: [Option<usize>; 5] = [None, Some(0), Some(1), Some(2), Some(10)];
const MAX_SEQS: [Option<usize>; 4] = [None, Some(0), Some(1), Some(2)];
const THREADS: [u8; 4] = [0, 1, 2, 3];
/// (use_characters, char_grams)
const MODES: [(bool, u8); 3] = [(false, 1), (true, 1), (true, 3)];
const D3: &str = "D3-max-size-none";

/// one violated oracle clause: (clause, class, detail)
type Finding = (String, String, String);
type Items = Vec<(String, usize)>;

// ------------------------------------------------------------------------------------------------
// reference
// ------------------------------------------------------------------------------------------------

/// The middle symbol of a character n-gram must be a letter or punctuation for the n-gram to be
/// counted (all symbols of this check's alphabet are; asserted in main).
fn countable(c: &str) -> bool {
    static PUNCT: std::sync::OnceLock<regex::Regex> = std::sync::OnceLock::new();
    c.chars().all(char::is_alphabetic) || PUNCT.get_or_init(|| regex::Regex::new(r"^\p{P}+$").unwrap()).is_match(c)
}

/// Frequencies of the cleaned, normalised word parts (or character n-grams, words padded with
/// <bow>/<eow> for n = 3, symbols joined by a space) of the first `max_sequences` lines of the files
/// taken in order.
fn reference_counts(files: &[Vec<String>], max_sequences: Option<usize>, use_characters: bool, char_grams: u8) -> BTreeMap<String, usize> {
    let mut m: BTreeMap<String, usize> = BTreeMap::new();
    for line in files.iter().flatten().take(max_sequences.unwrap_or(usize::MAX)) {
        let c = normalize(&clean(line, true), Normalization::NFKC, true);
        for (word, parts) in split_words(&c) {
            if use_characters {
                let mut cs: Vec<&str> = vec![];
                if char_grams > 1 {
                    cs.push("<bow>");
                }
                cs.extend(refs::chars(word, true));
                if char_grams > 1 {
                    cs.push("<eow>");
                }
                for w in cs.windows(char_grams as usize) {
                    if countable(w[w.len() / 2]) {
                        *m.entry(w.join(" ")).or_insert(0) += 1;
                    }
                }
            } else if let Some(parts) = parts {
                for (p, _) in parts {
                    *m.entry(p.to_string()).or_insert(0) += 1;
                }
            }
        }
    }
    m
}

fn items_of(d: &Dictionary) -> Items {
    let mut v: Items = d.items().map(|(k, c)| (k.clone(), *c)).collect();
    v.sort();
    v
}

/// true iff the reference does not determine which entries survive the cut (equal frequencies on
/// both sides of it)
fn tie_at_cut(reference: &BTreeMap<String, usize>, max_size: Option<usize>) -> bool {
    let k = max_size.unwrap_or(usize::MAX);
    if k == 0 || k >= reference.len() {
        return false;
    }
    let mut f: Vec<usize> = reference.values().copied().collect();
    f.sort_by(|a, b| b.cmp(a));
    f[k - 1] == f[k]
}

/// Creation part of the oracle for a dictionary produced elsewhere.
fn oracle_dictionary(reference: &BTreeMap<String, usize>, max_size: Option<usize>, d: &Dictionary) -> Vec<Finding> {
    let mut out: Vec<Finding> = vec![];
    let items = items_of(d);
    let show = || format!("dictionary {items:?}, reference {reference:?}");
    // exactly the reference frequencies
    if let Some((k, c)) = items.iter().find(|(k, c)| reference.get(k) != Some(c)) {
        out.push(("exact-frequencies".into(), "".into(), format!("entry {k:?} has frequency {c}, reference {:?}; {}", reference.get(k), show())));
    }
    // restricted to max_size entries; an absent max_size means unlimited
    let want_len = max_size.unwrap_or(usize::MAX).min(reference.len());
    if items.len() != want_len {
        out.push(("size-is-min-of-max-size-and-distinct-entries".into(), "".into(), format!("{} entries, expected {want_len} (max_size {max_size:?}); {}", items.len(), show())));
    }
    if d.len() != items.len() {
        out.push(("len-consistent".into(), "".into(), format!("len() = {}, items() yields {}", d.len(), items.len())));
    }
    // none of the kept entries is less frequent than an omitted one
    let min_kept = items.iter().map(|x| x.1).min();
    let max_omitted = reference.iter().filter(|(k, _)| !items.iter().any(|x| &x.0 == *k)).map(|x| *x.1).max();
    if let (Some(a), Some(b)) = (min_kept, max_omitted) {
        if b > a {
            out.push(("keeps-the-most-frequent".into(), "".into(), format!("an omitted entry has frequency {b}, a kept one {a}; {}", show())));
        }
    }
    // freq_sum is the total of the kept entries
    let total: usize = items.iter().map(|x| x.1).sum();
    if d.freq_sum != total {
        out.push(("freq-sum".into(), "".into(), format!("freq_sum = {}, kept frequencies add up to {total}; {}", d.freq_sum, show())));
    }
    // get() agrees with items()
    for (k, _) in reference {
        let want = items.iter().find(|x| &x.0 == k).map(|x| (x.1, x.1 as f64 / total as f64));
        let got = catch(|| d.get(k));
        let ok = match (&got, &want) {
            (Ok(None), None) => true,
            (Ok(Some((c, r))), Some((wc, wr))) => c == wc && (r - wr).abs() <= 1e-12,
            _ => false,
        };
        if !ok {
            out.push(("get-agrees-with-items".into(), "".into(), format!("get({k:?}) = {got:?}, expected {want:?}; {}", show())));
            break;
        }
    }
    out
}

/// save followed by load reproduces the dictionary
fn oracle_round_trip(d: &Dictionary, path: &std::path::Path) -> Vec<Finding> {
    let items = items_of(d);
    // the state of the target path is part of the case (set before every save, so that nothing
    // depends on what an earlier case left there): no file, an empty file, a longer dictionary file
    // and a longer file that is no dictionary
    let longer_dict: String = (0..items.len() + 8).map(|i| format!("old{i}\t{}\n", 1000 - i)).collect();
    let longer_junk = "x".repeat(longer_dict.len() + 64);
    let mut out = vec![];
    for (what, before) in [("no file at the path", None), ("an empty file at the path", Some(String::new())), ("a longer dictionary file at the path", Some(longer_dict)), ("a longer file that is no dictionary at the path", Some(longer_junk))] {
        let _ = std::fs::remove_file(path);
        if let Some(b) = &before {
            std::fs::write(path, b).expect("cannot write the scratch file");
        }
        match catch(|| d.save(path).and_then(|_| Dictionary::load(path))) {
            Err(p) => out.push(("no-panic".into(), "".into(), format!("save/load panicked ({what}): {p}; dictionary {items:?}"))),
            Ok(Err(e)) => out.push(("save-load-round-trip".into(), "".into(), format!("save/load failed ({what}): {e}; dictionary {items:?}"))),
            Ok(Ok(l)) => {
                let li = items_of(&l);
                if li != items || l.freq_sum != d.freq_sum || l.len() != d.len() {
                    out.push(("save-load-round-trip".into(), "".into(), format!("{what}: saved {items:?} (freq_sum {}), loaded {li:?} (freq_sum {})", d.freq_sum, l.freq_sum)));
                }
            }
        }
        if !out.is_empty() {
            break;
        }
    }
    out
}

/// get_closest returns an entry at minimal (normalised) edit distance, the most frequent among the
/// closest ones (any of them); None iff the dictionary is empty.
fn oracle_closest(d: &Dictionary, queries: &[String]) -> Vec<Finding> {
    let mut out: Vec<Finding> = vec![];
    let items = items_of(d);
    let total: usize = items.iter().map(|x| x.1).sum();
    for (measure, normalized) in [(DictionaryDistanceMeasure::EditDistance, false), (DictionaryDistanceMeasure::NormalizedEditDistance, true)] {
        let clause = if normalized { "closest-minimal-normalized-distance-most-frequent" } else { "closest-minimal-distance-most-frequent" };
        for q in queries {
            let got = match catch(|| d.get_closest(q, measure.clone())) {
                Err(p) => {
                    out.push(("no-panic".into(), "".into(), format!("get_closest({q:?}, {measure:?}) panicked: {p}; dictionary {items:?}")));
                    break;
                }
                Ok(g) => g,
            };
            // reference: distance of every entry as a fraction (d, divisor)
            let qc = refs::chars(q, true);
            let dist: Vec<(usize, usize)> = items
                .iter()
                .map(|(k, _)| {
                    let kc = refs::chars(k, true);
                    (refs::edit_distance(&qc, &kc, false, false), if normalized { qc.len().max(kc.len()).max(1) } else { 1 })
                })
                .collect();
            let less = |a: (usize, usize), b: (usize, usize)| a.0 * b.1 < b.0 * a.1;
            let best = dist.iter().copied().fold(None, |acc: Option<(usize, usize)>, x| match acc {
                Some(a) if !less(x, a) => Some(a),
                _ => Some(x),
            });
            let bad = match (&got, best) {
                (None, None) => None,
                (None, Some(_)) => Some("None for a non-empty dictionary".to_string()),
                (Some(_), None) => Some("an entry of an empty dictionary".to_string()),
                (Some((term, freq, rel)), Some(b)) => match items.iter().position(|x| &x.0 == term) {
                    None => Some("a term that is not in the dictionary".to_string()),
                    Some(i) => {
                        let closest_max = items.iter().zip(&dist).filter(|(_, x)| !less(b, **x)).map(|(it, _)| it.1).max().unwrap();
                        if less(b, dist[i]) {
                            Some(format!("distance {}/{} but the minimum is {}/{}", dist[i].0, dist[i].1, b.0, b.1))
                        } else if items[i].1 != *freq {
                            Some(format!("frequency {freq} reported, the entry has {}", items[i].1))
                        } else if *freq != closest_max {
                            Some(format!("frequency {freq} but a closest entry has {closest_max}"))
                        } else if (rel - *freq as f64 / total as f64).abs() > 1e-12 {
                            Some(format!("relative frequency {rel}, expected {}", *freq as f64 / total as f64))
                        } else {
                            None
                        }
                    }
                },
            };
            if let Some(why) = bad {
                out.push((clause.into(), "".into(), format!("get_closest({q:?}, {measure:?}) = {got:?}: {why}; dictionary {items:?}")));
                break;
            }
        }
    }
    out
}

// ------------------------------------------------------------------------------------------------
// one case = one configuration, all thread counts
// ------------------------------------------------------------------------------------------------

#[derive(Clone, Debug)]
struct Case {
    /// the files, each a list of lines
    files: Vec<Vec<String>>,
    max_size: Option<usize>,
    max_sequences: Option<usize>,
    use_characters: bool,
    char_grams: u8,
    threads: Vec<u8>,
    /// how each file is written (`TERM_*`); empty = every line of every file ends in "\n"
    term: Vec<u8>,
}

use tu_verif::filesets::{compositions, file_body, term_from_name, term_name, term_patterns, TERM_LF};

fn opt_json(o: Option<usize>) -> Value {
    o.map(|v| json!(v)).unwrap_or(Value::Null)
}

impl Case {
    fn json(&self) -> Value {
        json!({"files": self.files, "max_size": opt_json(self.max_size), "max_sequences": opt_json(self.max_sequences),
               "use_characters": self.use_characters, "char_grams": self.char_grams, "num_threads": self.threads,
               "line_termination_per_file": self.term.iter().map(|t| term_name(*t)).collect::<Vec<_>>()})
    }
    fn from_json(v: &Value) -> Case {
        let opt = |x: &Value| x.as_u64().map(|n| n as usize);
        Case {
            files: v["files"].as_array().unwrap().iter().map(|f| f.as_array().unwrap().iter().map(|l| l.as_str().unwrap().to_string()).collect()).collect(),
            max_size: opt(&v["max_size"]),
            max_sequences: opt(&v["max_sequences"]),
            use_characters: v["use_characters"].as_bool().unwrap(),
            char_grams: v["char_grams"].as_u64().unwrap() as u8,
            threads: v["num_threads"].as_array().unwrap().iter().map(|t| t.as_u64().unwrap() as u8).collect(),
            term: v["line_termination_per_file"].as_array().map(|a| a.iter().map(|t| term_from_name(t.as_str())).collect()).unwrap_or_default(),
        }
    }
}

struct Ctx {
    scratch: Scratch,
    queries: Vec<String>,
    /// dictionaries (as sorted item lists) that already went through save/load and the queries
    judged: HashSet<Items>,
}

fn check_case(run: &mut Run, ctx: &mut Ctx, case: &Case) {
    let paths: Vec<std::path::PathBuf> = (0..case.files.len()).map(|i| ctx.scratch.path(&format!("f{i}.txt"))).collect();
    for (i, (p, f)) in paths.iter().zip(&case.files).enumerate() {
        std::fs::write(p, file_body(f, case.term.get(i).copied().unwrap_or(TERM_LF))).expect("cannot write file");
    }
    if case.term.iter().any(|t| *t != TERM_LF) {
        run.count("configurations with an unterminated last line or CRLF line ends");
    }
    let reference = reference_counts(&case.files, case.max_sequences, case.use_characters, case.char_grams);
    let tie = tie_at_cut(&reference, case.max_size);
    let total_lines: usize = case.files.iter().map(|f| f.len()).sum();
    let mut results: Vec<(u8, Items)> = vec![];
    for &th in &case.threads {
        run.evaluations += 1;
        if !reference.is_empty() {
            run.nontrivial += 1;
        }
        run.sample(|| case.json());
        run.calls += 1;
        run.tick();
        let res = catch(|| Dictionary::create(&paths, case.max_size, case.max_sequences, th, case.use_characters, case.char_grams, false));
        let d = match res {
            Err(p) => {
                let lower = p.to_lowercase();
                let class = if case.max_size.is_none() && (lower.contains("capacity overflow") || p.contains("src/dictionary.rs")) { D3 } else { "" };
                run.violation("no-panic", class, case.json(), format!("num_threads={th}: Dictionary::create panicked: {p}"));
                continue;
            }
            Ok(Err(e)) => {
                run.violation("create-succeeds", "", case.json(), format!("num_threads={th}: Dictionary::create returned an error: {e}"));
                continue;
            }
            Ok(Ok(d)) => d,
        };
        run.compared += 1;
        for (clause, class, detail) in oracle_dictionary(&reference, case.max_size, &d) {
            run.violation(&clause, &class, case.json(), format!("num_threads={th}: {detail}"));
        }
        let items = items_of(&d);
        // properties of the dictionary value: once per distinct dictionary of this process
        if !ctx.judged.contains(&items) {
            ctx.judged.insert(items.clone());
            run.count("distinct dictionaries put through save/load and all queries");
            run.calls += 2 + 2 * ctx.queries.len() as u64;
            let mut f = oracle_round_trip(&d, &ctx.scratch.path("saved.txt"));
            f.extend(oracle_closest(&d, &ctx.queries));
            for (clause, class, detail) in f {
                run.violation(&clause, &class, case.json(), format!("num_threads={th}: {detail}"));
            }
            run.count_n("get_closest queries judged", 2 * ctx.queries.len() as u64);
        }
        run.outcome(&(&case.files, case.max_size, case.max_sequences, case.use_characters, case.char_grams, &items));
        results.push((th, items));
    }
    // identical for every thread count (which of several equally frequent entries survive the cut is
    // not determined by the statement, so a difference is only accepted under a tie at the cut)
    if let Some((t0, first)) = results.first() {
        if let Some((t, other)) = results.iter().find(|(_, i)| i != first) {
            if tie {
                run.count("configurations whose results differ between thread counts under a tie at the cut (accepted)");
            } else {
                run.violation("same-result-for-every-thread-count", "", case.json(), format!("num_threads={t0}: {first:?}, num_threads={t}: {other:?}"));
            }
        }
        if results.len() > 1 {
            run.count("configurations compared across thread counts");
        }
    }
    // what the configuration exercises
    if case.max_size.map(|k| k < reference.len()).unwrap_or(false) {
        run.count(if tie { "configurations where max_size cuts, tie at the cut" } else { "configurations where max_size cuts, no tie" });
    }
    if case.max_sequences.map(|k| k < total_lines).unwrap_or(false) {
        run.count("configurations where max_sequences drops lines");
    }
    if case.files.len() > 1 {
        run.count("configurations with several files");
    }
}

/// closest-entry phase: one dictionary given as (word, frequency) pairs, built by the real `create`
/// from a one-line file, then every query of the phase
fn check_closest(run: &mut Run, ctx: &mut Ctx, entries: &[(String, usize)]) {
    let case = json!({"closest_phase": true, "entries": entries});
    run.evaluations += 1;
    run.nontrivial += 1;
    run.sample(|| case.clone());
    let path = ctx.scratch.path("closest.txt");
    let line: Vec<&str> = entries.iter().flat_map(|(w, f)| std::iter::repeat(w.as_str()).take(*f)).collect();
    std::fs::write(&path, format!("{}\n", line.join(" "))).expect("cannot write file");
    run.calls += 1;
    let d = match catch(|| Dictionary::create(&[&path], None, None, 0, false, 1, false)) {
        Ok(Ok(d)) => d,
        other => {
            run.violation("create-succeeds", "", case, format!("Dictionary::create failed: {:?}", other.map(|r| r.map(|_| ()).map_err(|e| e.to_string()))));
            return;
        }
    };
    // the entries the file must give according to the reference count (and, as a check of the
    // phase itself, the entries it was meant to give)
    let want: Items = reference_counts(&[vec![line.join(" ")]], None, false, 1).into_iter().collect();
    if items_of(&d) != want {
        run.violation("exact-frequencies", "", case, format!("dictionary {:?}, reference {want:?}", items_of(&d)));
        return;
    }
    let mut meant: Items = entries.to_vec();
    meant.sort();
    if want != meant {
        run.count("closest phase: dictionaries whose reference count differs from the intended entries");
    }
    run.compared += 1;
    let queries: Vec<String> = CLOSEST_QUERIES.iter().map(|q| q.to_string()).collect();
    run.calls += 2 * queries.len() as u64;
    for (clause, class, detail) in oracle_closest(&d, &queries) {
        run.violation(&clause, &class, case.clone(), detail);
    }
    run.count_n("get_closest queries judged", 2 * queries.len() as u64);
}

/// format phase: one line, one mode; creation against the reference count and the save/load round
/// trip of that very dictionary (no cache: the point is entries whose spelling a line-oriented file
/// format could mistake for syntax)
fn check_format(run: &mut Run, ctx: &mut Ctx, line: &str, use_characters: bool, char_grams: u8) {
    let case = json!({"format_phase": true, "line": line, "use_characters": use_characters, "char_grams": char_grams});
    run.evaluations += 1;
    run.sample(|| case.clone());
    let path = ctx.scratch.path("format.txt");
    std::fs::write(&path, format!("{line}\n")).expect("cannot write file");
    run.calls += 1;
    let d = match catch(|| Dictionary::create(&[&path], None, None, 0, use_characters, char_grams, false)) {
        Ok(Ok(d)) => d,
        other => {
            run.violation("create-succeeds", "", case, format!("Dictionary::create failed: {:?}", other.map(|r| r.map(|_| ()).map_err(|e| e.to_string()))));
            return;
        }
    };
    let reference = reference_counts(&[vec![line.to_string()]], None, use_characters, char_grams);
    if !reference.is_empty() {
        run.nontrivial += 1;
    }
    run.compared += 1;
    for (clause, class, detail) in oracle_dictionary(&reference, None, &d) {
        run.violation(&clause, &class, case.clone(), detail);
    }
    run.calls += 2;
    for (clause, class, detail) in oracle_round_trip(&d, &ctx.scratch.path("format_saved.txt")) {
        run.violation(&clause, &class, case.clone(), detail);
    }
}

/// the dictionaries of the closest-entry phase: every set of 1..=3 words x frequencies in {1, 2}
fn closest_specs() -> Vec<Vec<(String, usize)>> {
    let n = CLOSEST_WORDS.len();
    let mut out = vec![];
    for mask in 1u32..(1 << n) {
        let k = mask.count_ones() as usize;
        if k > 3 {
            continue;
        }
        let words: Vec<&str> = (0..n).filter(|i| mask & (1 << i) != 0).map(|i| CLOSEST_WORDS[i]).collect();
        for f in 0..(1u32 << k) {
            out.push(words.iter().enumerate().map(|(i, w)| (w.to_string(), 1 + ((f >> i) & 1) as usize)).collect());
        }
    }
    out
}

// ------------------------------------------------------------------------------------------------
// Engine B: the counting workers under the controlled scheduler (DESIGN 4.5)
// ------------------------------------------------------------------------------------------------

/// (files, max_size, max_sequences, use_characters, char_grams, workers, preemption bound)
#[allow(clippy::type_complexity)]
fn sched_units(quick: bool) -> Vec<(Vec<Vec<String>>, Option<usize>, Option<usize>, bool, u8, usize, usize)> {
    let f = |files: &[&[&str]]| files.iter().map(|f| f.iter().map(|l| l.to_string()).collect::<Vec<String>>()).collect::<Vec<_>>();
    // a bound of 99 preemptions is no bound at all for these short executions: every interleaving
    let mut u = vec![
        (f(&[&["a b", "b a-b", "a a"]]), Some(10), None, false, 1, 2, 99),
        (f(&[&["ab", "b"], &["ab a"]]), Some(1), Some(2), false, 1, 2, 99),
        (f(&[&["ab", "ba", "ab"]]), None, None, true, 3, 3, if quick { 2 } else { 99 }),
        // more lines than the channel holds, every line with the same word: a worker meets a full
        // channel (when the reducer is scheduled late) and then counts the same word again
        (f(&[&["a", "a", "a", "a"]]), Some(10), None, false, 1, 1, 99),
        (f(&[&["a b", "a", "b a", "a", "a"]]), Some(10), None, false, 1, 2, if quick { 1 } else { 99 }),
    ];
    if !quick {
        u.push((f(&[&["a", "a"], &["a", "b"]]), Some(2), None, true, 1, 2, 99));
        u.push((f(&[&["a b", "b a", "A a"]]), Some(10), Some(2), false, 1, 3, 3));
        u.push((f(&[&["a", "a"]]), None, None, false, 1, 4, 3));
    }
    u
}

#[allow(clippy::too_many_arguments)]
fn check_sched(run: &mut Run, ctx: &mut Ctx, files: &[Vec<String>], max_size: Option<usize>, max_sequences: Option<usize>, use_characters: bool, char_grams: u8, workers: usize, bound: usize, controlled_reducer: bool, replay: Option<Vec<usize>>) {
    use text_utils::verif::ThreadKind;
    let paths: Vec<std::path::PathBuf> = (0..files.len()).map(|i| ctx.scratch.path(&format!("s{i}.txt"))).collect();
    for (p, f) in paths.iter().zip(files) {
        std::fs::write(p, f.iter().map(|l| format!("{l}\n")).collect::<String>()).expect("cannot write file");
    }
    let reference = reference_counts(files, max_sequences, use_characters, char_grams);
    let unit_json = json!({"sched": true, "files": files, "max_size": opt_json(max_size), "max_sequences": opt_json(max_sequences), "use_characters": use_characters, "char_grams": char_grams, "workers": workers, "bound": bound, "controlled_reducer": controlled_reducer});
    let runp: *mut Run = run;
    let make_body = || {
        let paths = paths.clone();
        move || -> Result<(Items, Vec<Finding>), String> {
            let d = Dictionary::create(&paths, max_size, max_sequences, workers as u8, use_characters, char_grams, false).map_err(|e| format!("Dictionary::create error: {e}"))?;
            Ok((items_of(&d), vec![]))
        }
    };
    let mut results: std::collections::BTreeSet<Items> = Default::default();
    let tie = tie_at_cut(&reference, max_size);
    let mut check = |x: &tu_verif::sched::Exec<Result<(Items, Vec<Finding>), String>>, _p: &[usize]| -> bool {
        let run = unsafe { &mut *runp };
        run.evaluations += 1;
        run.calls += 1;
        run.compared += 1;
        if x.preemptions() > 0 {
            run.nontrivial += 1;
        }
        let case = || {
            let mut c = unit_json.clone();
            c["choices"] = json!(x.choices());
            c["schedule"] = json!(x.schedule());
            c
        };
        run.sample(|| case());
        if let Some(h) = &x.halt {
            let machinery = matches!(h, tu_verif::sched::Halt::Divergence(_));
            run.violation(if machinery { "machinery-replay-divergence" } else { "counting-schedule-terminates" }, if machinery { "machinery" } else { "" }, case(), format!("{h:?}"));
            return false;
        }
        match (&x.result, &x.body_panic) {
            (_, Some(p)) => {
                run.violation("no-panic", "", case(), format!("Dictionary::create panicked under this schedule: {p}"));
                return false;
            }
            (Some(Ok((items, _))), _) => {
                results.insert(items.clone());
                // exact frequencies, top-k, size: judged on the items against the reference count
                let kept: std::collections::BTreeMap<&String, usize> = items.iter().map(|(k, v)| (k, *v)).collect();
                let expect_len = max_size.map(|m| m.min(reference.len())).unwrap_or(reference.len());
                let mut why = vec![];
                if items.len() != expect_len {
                    why.push(format!("{} entries, expected {expect_len}", items.len()));
                }
                for (k, v) in &kept {
                    if reference.get(*k) != Some(v) {
                        why.push(format!("entry {k:?} has frequency {v}, reference {:?}", reference.get(*k)));
                    }
                }
                let min_kept = kept.values().copied().min().unwrap_or(usize::MAX);
                if let Some((k, v)) = reference.iter().find(|(k, v)| !kept.contains_key(k) && **v > min_kept) {
                    why.push(format!("omitted entry {k:?} (frequency {v}) is more frequent than a kept one ({min_kept})"));
                }
                if !why.is_empty() {
                    run.violation("schedule-independent-exact-counts", "", case(), format!("under this schedule of the counting workers: {}; dictionary {items:?}, reference {reference:?}", why.join("; ")));
                }
            }
            (Some(Err(e)), _) => {
                run.violation("create-succeeds", "", case(), e.clone());
            }
            (None, None) => {}
        }
        run.num_violations() < 4
    };
    if let Some(choices) = replay {
        let x = tu_verif::countsched::exec_mode(ThreadKind::DictCounter, workers, controlled_reducer, &choices, make_body());
        tu_verif::guard::quiet_panics();
        if x.choices() != choices {
            run.violation("machinery-replay-divergence", "machinery", unit_json.clone(), format!("replayed {:?}", x.choices()));
        }
        check(&x, &choices);
        return;
    }
    let stats = if controlled_reducer {
        tu_verif::countsched::explore_controlled(ThreadKind::DictCounter, workers, bound, run.deadline(), make_body, &mut check)
    } else {
        tu_verif::countsched::explore(ThreadKind::DictCounter, workers, bound, run.deadline(), make_body, &mut check)
    };
    tu_verif::guard::quiet_panics();
    if results.len() > 1 && !tie {
        run.violation("same-result-for-every-schedule", "", unit_json.clone(), format!("different schedules of the counting workers gave different dictionaries: {results:?}"));
    }
    run.count_n("scheduler:executions", stats.executions);
    run.count_n("scheduler:transitions", stats.transitions);
    if stats.out_of_time {
        run.capped = Some(format!("time budget reached in scheduler unit {unit_json}"));
    }
    let mut per = run.extra.remove("scheduler_units").and_then(|v| v.as_array().cloned()).unwrap_or_default();
    per.push(json!({"unit": unit_json, "executions": stats.executions, "max_depth": stats.max_depth, "distinct_dictionaries": results.len(), "completed": !stats.stopped_early}));
    run.extra.insert("scheduler_units".into(), json!(per));
}

fn main() {
    let mut run = Run::from_env("C20");
    let mut ctx = Ctx { scratch: Scratch::new("c20"), queries: strings(&QUERY_ALPHA, QUERY_MAX_LEN), judged: HashSet::new() };
    if let Some(c) = run.replay_case() {
        if c.get("sched").is_some() {
            let opt = |x: &Value| x.as_u64().map(|n| n as usize);
            let files: Vec<Vec<String>> = c["files"].as_array().unwrap().iter().map(|f| f.as_array().unwrap().iter().map(|l| l.as_str().unwrap().to_string()).collect()).collect();
            let choices = c["choices"].as_array().map(|a| a.iter().map(|v| v.as_u64().unwrap() as usize).collect()).unwrap_or_default();
            check_sched(&mut run, &mut ctx, &files, opt(&c["max_size"]), opt(&c["max_sequences"]), c["use_characters"].as_bool().unwrap(), c["char_grams"].as_u64().unwrap() as u8, c["workers"].as_u64().unwrap() as usize, c["bound"].as_u64().unwrap() as usize, c["controlled_reducer"].as_bool().unwrap_or(false), Some(choices));
            drop(ctx);
            run.finish();
        }
        if c.get("format_phase").is_some() {
            check_format(&mut run, &mut ctx, c["line"].as_str().unwrap(), c["use_characters"].as_bool().unwrap(), c["char_grams"].as_u64().unwrap() as u8);
            drop(ctx);
            run.finish();
        }
        if c.get("closest_phase").is_some() {
            let entries: Vec<(String, usize)> = c["entries"].as_array().unwrap().iter().map(|e| (e[0].as_str().unwrap().to_string(), e[1].as_u64().unwrap() as usize)).collect();
            check_closest(&mut run, &mut ctx, &entries);
            drop(ctx);
            run.finish();
        }
        check_case(&mut run, &mut ctx, &Case::from_json(&c));
        drop(ctx);
        run.finish();
    }
    // file sets, simplest first: one line; two lines; three lines; each cut into files in every way
    let one_max = run.pick(3, 5);
    let two_max = run.pick(1, 2);
    let three_alpha: &[&str] = if run.quick() { &["a", " "] } else { &ALPHA };
    let mut sets: Vec<Vec<Vec<String>>> = vec![];
    for l in strings(&ALPHA, one_max) {
        sets.push(vec![vec![l]]);
    }
    // one line with a character of two code points that no normalisation composes (x + U+0301): the
    // character n-grams are made of grapheme clusters, not of code points
    for l in strings(&CLUSTER_ALPHA, 3) {
        if l.contains('\u{301}') {
            sets.push(vec![vec![l]]);
        }
    }
    // one line over a two-byte letter in both cases, a ligature that NFKC rewrites to two letters,
    // and a digit (neither letter nor punctuation: n-grams around it are not counted)
    for l in strings(&WIDE_ALPHA, run.pick(2, 3)) {
        if l.chars().any(|c| !c.is_ascii() || c.is_ascii_digit()) {
            sets.push(vec![vec![l]]);
        }
    }
    // quick: of the 3-symbol lines only those with the spacing accent between two other symbols
    if run.quick() {
        for a in WIDE_ALPHA {
            for b in WIDE_ALPHA {
                sets.push(vec![vec![format!("{a}\u{b4}{b}")]]);
            }
        }
    }
    let two = strings(&ALPHA, two_max);
    for x in &two {
        for y in &two {
            sets.extend(compositions(&[x.clone(), y.clone()]));
        }
    }
    let three = strings(three_alpha, 1);
    for x in &three {
        for y in &three {
            for z in &three {
                sets.extend(compositions(&[x.clone(), y.clone(), z.clone()]));
            }
        }
    }
    // units: per file set one unit with the whole finite-max_size grid, then one unit per
    // max_size=None case
    let per_set = 1 + MAX_SEQS.len() * MODES.len();
    let quick = run.quick();
    let cases_of = |unit: usize| -> Vec<Case> {
        let files = &sets[unit / per_set];
        let k = unit % per_set;
        // (quick: a configuration that reads no line at all, max_sequences = 0, or keeps no entry, max_size = 0,
        // with 0 and 2 threads only)
        let mk = |max_size, max_sequences: Option<usize>, (use_characters, char_grams): (bool, u8)| Case {
            files: files.clone(),
            max_size,
            max_sequences,
            use_characters,
            char_grams,
            threads: if quick && (max_sequences == Some(0) || max_size == Some(0)) { vec![0, 2] } else { THREADS.to_vec() },
            term: vec![],
        };
        if k == 0 {
            let mut v = vec![];

            for ms in MAX_SIZES.iter().filter(|m| m.is_some()) {
                for mq in MAX_SEQS {
                    for mode in MODES {
                        v.push(mk(*ms, mq, mode));
                    }
                }
            }
            // the other ways of writing the same lines to the files, with the largest finite max_size
            // the extremes of the two limits ("no limit" spelled as the largest value)
            // (quick: the extremes and the line-termination patterns with 0 and 2 threads only)
            let few: Vec<u8> = if quick { vec![0, 2] } else { THREADS.to_vec() };
            for (ms, mq) in [(Some(usize::MAX), None), (Some(2), Some(usize::MAX)), (Some(usize::MAX), Some(usize::MAX))] {
                for mode in MODES {
                    let mut c = mk(ms, mq, mode);
                    c.threads = few.clone();
                    v.push(c);
                }
            }
            for term in term_patterns(files) {
                for mq in MAX_SEQS {
                    for mode in MODES {
                        let mut c = mk(Some(10), mq, mode);
                        c.term = term.clone();
                        c.threads = few.clone();
                        v.push(c);
                    }
                }
            }
            v
        } else {
            vec![mk(None, MAX_SEQS[(k - 1) / MODES.len()], MODES[(k - 1) % MODES.len()])]
        }
    };
    let units = sets.len() * per_set;
    let sus = sched_units(run.quick());
    if let Some(n) = run.describe_unit() {
        let n = n as usize;
        if n >= units && n < units + sus.len() {
            let u = &sus[n - units];
            println!("{}", json!({"scheduler_unit": {"files": u.0, "max_size": opt_json(u.1), "max_sequences": opt_json(u.2), "use_characters": u.3, "char_grams": u.4, "workers": u.5, "bound": u.6}}));
            return;
        }
        if n < units {
            let cs = cases_of(n);
            if cs.len() == 1 {
                println!("{}", cs[0].json());
            } else {
                println!("{}", json!({"files": cs[0].files, "grid": "max_size {0,1,2,10} x max_sequences {None,0,1,2} x {words, chars(1), chars(3)} x num_threads {0,1,2,3}; the extremes (max_size usize::MAX, max_sequences usize::MAX, both); with max_size 10 additionally every other way of terminating the lines (any set of files with an unterminated last line; CRLF)"}));
            }
        } else {
            println!("{}", json!({"unit": n, "closest_phase_chunk": n - units - sus.len(), "description": "64 dictionaries of the closest-entry phase x all its queries"}));
        }
        return;
    }
    for s in ALPHA {
        assert!(s == " " || countable(s));
    }
    for s in ALPHA.iter().chain(CLUSTER_ALPHA.iter()) {
        assert_eq!(&normalize(s, Normalization::NFKC, true), s);
    }
    run.bounds.insert("alphabet".into(), json!(ALPHA));
    run.bounds.insert("file_sets".into(), json!(sets.len()));
    run.bounds.insert(
        "file_sets_rule".into(),
        json!(format!(
            "1 line of at most {one_max} symbols; 1 line of at most 3 symbols over {CLUSTER_ALPHA:?} with the cluster; 1 line of at most {} symbols over {WIDE_ALPHA:?} with a non-ASCII symbol or the digit; 2 lines of at most {two_max} symbols each; 3 lines of at most 1 symbol each over {three_alpha:?}; (quick: 2 symbols, plus the 3-symbol lines with U+00B4 in the middle); lines cut into consecutive non-empty files in every way",
            run.pick(2, 3)
        )),
    );
    run.bounds.insert("max_size".into(), json!(MAX_SIZES.iter().map(|o| opt_json(*o)).collect::<Vec<_>>()));
    run.bounds.insert("max_sequences".into(), json!(MAX_SEQS.iter().map(|o| opt_json(*o)).collect::<Vec<_>>()));
    run.bounds.insert("num_threads".into(), json!(THREADS));
    run.bounds.insert("modes".into(), json!(["words", "chars(1)", "chars(3)"]));
    run.bounds.insert("queries".into(), json!(format!("all strings over {QUERY_ALPHA:?} with at most {QUERY_MAX_LEN} symbols x {{edit distance, normalized edit distance}}")));
    run.extra.insert(
        "rule".into(),
        json!("every file set x max_size x max_sequences x mode x num_threads on the real Dictionary::create (evaluations = creates); the four thread counts of a configuration are compared with each other; every distinct dictionary (as a set of entries, per process) goes through save/load and every get_closest query; a case is non-trivial when the reference count is not empty; every max_size=None configuration is an enumeration unit of its own"),
    );
    run.assumptions.push("the crate's public clean, normalize(NFKC) and split_words define 'cleaned, normalised word parts' (they are C11's and nobody's subject here, not C20's)".into());
    run.assumptions.push("character n-grams: the grapheme clusters of every whitespace-separated word, for n = 3 padded with <bow> and <eow>, joined by one space, counted when the middle symbol is a letter or punctuation (true for every symbol of the alphabet; asserted)".into());
    run.assumptions.push("which of several equally frequent entries survive the max_size cut is not determined by the statement: every choice is accepted, and results may differ between thread counts only in that choice".into());
    run.bounds.insert("scheduler_units".into(), json!(sus.iter().map(|u| json!({"files": u.0, "max_size": opt_json(u.1), "max_sequences": opt_json(u.2), "use_characters": u.3, "char_grams": u.4, "workers": u.5, "preemption_bound": u.6})).collect::<Vec<_>>()));
    run.assumptions.push("scheduler part: only the counting workers are controlled, the reducer (calling thread) runs freely and always receives, so the order of messages it sees is the controlled order of sends; sequentially consistent exploration of the instrumented primitives".into());
    // Engine B first: every schedule of the counting workers up to the preemption bound
    let cb = if run.quick() { 2 } else { 3 };
    for (j, u) in sus.iter().enumerate() {
        if !run.unit((units + j) as u64) {
            continue;
        }
        check_sched(&mut run, &mut ctx, &u.0, u.1, u.2, u.3, u.4, u.5, u.6, false, None);
        // the same scenario with the reducer (the calling thread) controlled as well: its spawns and
        // receives are scheduling points and the count channel is the real bounded channel
        check_sched(&mut run, &mut ctx, &u.0, u.1, u.2, u.3, u.4, u.5, u.6.min(if u.5 >= 3 { cb - 1 } else { cb }), true, None);
    }
    // closest-entry phase: units of 64 dictionaries each, after the scheduler units
    let specs = closest_specs();
    run.bounds.insert("closest_phase".into(), json!(format!("{} dictionaries (every set of 1..=3 of {CLOSEST_WORDS:?} x frequencies in {{1, 2}}) x queries {CLOSEST_QUERIES:?} x {{edit distance, normalized edit distance}}", specs.len())));
    for (k, chunk) in specs.chunks(64).enumerate() {
        if !run.unit((units + sus.len() + k) as u64) {
            continue;
        }
        for spec in chunk {
            check_closest(&mut run, &mut ctx, spec);
        }
    }
    // many lines: line counts around the powers of two a size threshold would sit at (lines handed to
    // the workers in blocks, a line budget checked every so often), in one file and cut in two
    {
        // (the thread count is a u8: line counts around 2^8 in quick too, there with fewer thread counts)
        let lens = tu_verif::enumerate::threshold_lengths(8);
        let quick = run.pick(true, false);
        run.bounds.insert("many_lines_phase".into(), json!(format!("line counts {lens:?} x (one file, two files cut in the middle) x max_size {{10, none}} x max_sequences {{none, n - 1, n}} x 3 modes x num_threads {{0, 1, 2, 3, 16, 17, 255}} (the character modes: {{0, 2, 17}}, without max_sequences = n){}", if quick { " (quick: the thread counts above 3 with the word mode only; more than 65 lines: one file, {0, 2, 255}, words + chars(3))" } else { "" })));
        let base = units + sus.len() + specs.len().div_ceil(64);
        run.bounds.insert("many_lines_first_unit".into(), json!(base));
        for (k, n) in lens.iter().enumerate() {
            let pat = ["a b", "b", "a-b A", ""];
            let lines: Vec<String> = (0..*n).map(|i| pat[i % pat.len()].to_string()).collect();
            for (fi, files) in [vec![lines.clone()], vec![lines[..*n / 2].to_vec(), lines[*n / 2..].to_vec()]].into_iter().enumerate() {
                for (mi, max_size) in [Some(10), None].into_iter().enumerate() {
                    for (qi, max_sequences) in [None, Some(*n - 1), Some(*n)].into_iter().enumerate() {
                        // (a unit per line count, file layout, max_size and max_sequences: they are heavy)
                        if !run.unit((base + 12 * k + 6 * fi + 3 * mi + qi) as u64) || (quick && *n > 65 && fi == 1) {
                            continue;
                        }
                        for (use_characters, char_grams) in MODES {
                            let trimmed = quick && *n > 65;
                            if trimmed && use_characters && char_grams == 1 {
                                continue;
                            }
                            // (also thread counts around a power of two and the largest the parameter type holds)
                            // (quick: the large thread counts with the word mode only -- the mode does not
                            // change how lines are handed to the threads)
                            // (thorough: the character modes with three thread counts, and max_sequences
                            // equal to the line count with the word mode only)
                            if !quick && use_characters && qi == 2 {
                                continue;
                            }
                            let threads = match (trimmed, use_characters) {
                                (true, false) => vec![0, 2, 255],
                                (true, true) => vec![0, 2],
                                (false, true) if quick => vec![0, 1, 2, 3],
                                (false, true) => vec![0, 2, 17],
                                (false, false) => vec![0, 1, 2, 3, 16, 17, 255],
                            };
                            check_case(&mut run, &mut ctx, &Case { files: files.clone(), max_size, max_sequences, use_characters, char_grams, threads, term: vec![] });
                        }
                    }
                }
            }
        }
    }
    // repeats phase: several lines, words repeated inside a line (an entry can gain more than one
    // count per line), small max_size: every sequence of 2..=3 (thorough 4) lines from a small menu
    {
        let menu = ["a a a a", "b", "c", "b b b b b b", "a", "c c", "d", "b c"];
        let mut corpora: Vec<Vec<String>> = vec![];
        for len in 2..=run.pick(3, 4) {
            for idx in tu_verif::enumerate::sequences(menu.len(), len).into_iter().filter(|s| s.len() == len) {
                corpora.push(idx.iter().map(|i| menu[*i].to_string()).collect());
            }
        }
        run.bounds.insert("repeats_phase".into(), json!(format!("{} corpora (every sequence of 2..={} lines from {menu:?}) x max_size {{1, 2}} x {{words, chars(1)}} x num_threads {{0, 1, 2}}", corpora.len(), run.pick(3, 4))));
        let base = units + sus.len() + specs.len().div_ceil(64) + 12 * tu_verif::enumerate::threshold_lengths(8).len() + 200;
        for (k, chunk) in corpora.chunks(16).enumerate() {
            if !run.unit((base + k) as u64) {
                continue;
            }
            for lines in chunk {
                for max_size in [Some(1), Some(2)] {
                    for (use_characters, char_grams) in [MODES[0], MODES[1]] {
                        check_case(&mut run, &mut ctx, &Case { files: vec![lines.clone()], max_size, max_sequences: None, use_characters, char_grams, threads: vec![0, 1, 2], term: vec![] });
                    }
                }
            }
        }
    }
    // format phase (units of 32 lines each)
    {
        let lines: Vec<String> = strings(&FORMAT_ALPHA, run.pick(3, 4)).into_iter().filter(|l| l.chars().any(|c| c != 'a' && c != ' ')).collect();
        run.bounds.insert("format_phase".into(), json!(format!("{} one-line corpora over {FORMAT_ALPHA:?} with at most {} symbols x 3 modes: creation and save/load round trip", lines.len(), run.pick(3, 4))));
        let base = units + sus.len() + specs.len().div_ceil(64) + 12 * tu_verif::enumerate::threshold_lengths(8).len();
        for (k, chunk) in lines.chunks(32).enumerate() {
            if !run.unit((base + k) as u64) {
                continue;
            }
            for line in chunk {
                for (use_characters, char_grams) in MODES {
                    check_format(&mut run, &mut ctx, line, use_characters, char_grams);
                }
            }
        }
    }
    for unit in 0..units {
        if !run.unit(unit as u64) {
            continue;
        }
        if run.out_of_time() {
            break;
        }
        for case in cases_of(unit) {
            check_case(&mut run, &mut ctx, &case);
        }
    }
    drop(ctx);
    run.finish();
}
