//! C03 — BPE tokenization applies the merges canonically (lowest merge id, leftmost on ties).
//! Engine A, same space as C02 (bpe_common/mod.rs, DESIGN 5/C03).
//!
//! Oracle (from the statement):
//! * `ids-equal-reference`: `tokenize(s, true).token_ids` == prefix ids ++ reference ids ++ suffix ids,
//!   where the reference (refs::bpe_encode_word) starts every whitespace-prefixed word from single
//!   bytes and repeatedly merges, among all adjacent pairs whose concatenation is a table entry, the
//!   one with the lowest id (leftmost on ties) until none is left. Prefix / suffix ids are taken from
//!   the tokenizer itself (their values are C04's subject).
//! * `training-word-single-token` (tables from train_bpe): a corpus word whose replayed training
//!   segmentation is one token is encoded as exactly that token.
//!
//! Violations whose observed ids are exactly what the model of known defect D1 predicts (DESIGN 8:
//! only byte+byte merges are applied, the word is abandoned after the first merge without a
//! mergeable neighbour) get the class `D1-stale-repush-and-early-exit`; everything else gets "".
use tu_verif::guard::catch;
use tu_verif::run::Run;

#[path = "bpe_common/mod.rs"]
mod bpe_common;
use bpe_common::{case_json, d1_model, Built, Expect, Oracle};
use text_utils::tokenization::{BaseTokenize, Tokenize};

struct Canonical;

fn wrap(b: &Built, ids: &[u32]) -> Vec<u32> {
    b.tok.prefix_token_ids().iter().chain(ids).chain(b.tok.suffix_token_ids()).copied().collect()
}

impl Oracle for Canonical {
    fn rule(&self) -> &'static str {
        "units are consecutive chunks of the table list (F1 exhaustive tables by size, F3 hand tables, F4 trainings, F2 exhaustive 4-entry tables); per table the tokenizer without limit/prefix/suffix runs over every string up to the main length bound (trained tables: also over every word of the training corpus) and every max_vocab_size cut x config runs over every string up to the product bound, all in shortlex order; a case is non-trivial when the reference encoder performs at least two merges in one word or a merge of depth >= 2 (a merge one of whose operands is itself a merged token)"
    }

    fn check(&mut self, run: &mut Run, b: &Built, text: &str, e: &Expect) {
        if e.per_word >= 2 || e.depth >= 2 {
            run.nontrivial += 1;
        }
        run.sample(|| case_json(b, text, e.single_token));
        run.calls += 1;
        let ids = match catch(|| b.tok.tokenize(text, true)) {
            Err(p) => return run.violation("no-panic", "", case_json(b, text, e.single_token), format!("tokenize panicked: {p}")),
            Ok(Err(err)) => return run.violation("tokenize-ok", "", case_json(b, text, e.single_token), format!("tokenize failed: {err}")),
            Ok(Ok(t)) => t.token_ids,
        };
        run.compared += 1;
        let np = b.tok.prefix_token_ids().len();
        let ns = b.tok.suffix_token_ids().len();
        let equal = ids.len() == np + e.ids.len() + ns
            && ids[..np] == *b.tok.prefix_token_ids()
            && ids[np..np + e.ids.len()] == *e.ids
            && ids[np + e.ids.len()..] == *b.tok.suffix_token_ids();
        let mut class = "";
        if !equal {
            let d1 = d1_model(text, &b.eff);
            if ids == wrap(b, &d1) {
                class = "D1-stale-repush-and-early-exit";
            }
            run.violation(
                "ids-equal-reference",
                class,
                case_json(b, text, e.single_token),
                format!(
                    "observed ids {ids:?}, reference {:?} ({} merges, depth {}); effective table {:?}",
                    wrap(b, e.ids),
                    e.merges,
                    e.depth,
                    bpe_common::lossy(&b.eff)
                ),
            );
        }
        if let Some(tok) = e.single_token {
            run.compared += 1;
            if ids != wrap(b, &[tok]) {
                run.violation(
                    "training-word-single-token",
                    class,
                    case_json(b, text, e.single_token),
                    format!("training made the word {text:?} the single token {tok}, observed ids {ids:?}"),
                );
            }
        }
    }
}

fn main() {
    bpe_common::drive("C03", Canonical);
}
