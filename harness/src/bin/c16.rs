//! C16 — inference windows tile the text exactly and respect the size limits.
//! Engine A (DESIGN 5/C16): every non-empty string over a 5-symbol alphabet (1, 2, 3 and 4 byte code
//! points and one cluster of two code points) x max 1..12 x context 0..4 x {char, byte} windows x
//! use_graphemes, plus the `full` window once per string and mode; every result of the real
//! `windows::windows` is compared with clauses written from the statement over an independent
//! table of cluster byte offsets.  The same strings x max x mode also go through
//! `text::possible_character_substrings` / `possible_byte_substrings` (the statement's anchors list
//! them as users of the same index arithmetic).
//!
//! Oracle for `windows` (n = number of characters in the chosen mode, off[i] = byte offset of
//! character i computed by the harness from the cluster lengths, widest = longest cluster in bytes):
//!  * never a panic; a hang is caught by the Run watchdog, an allocating endless loop by the
//!    address-space limit set in `main` (both are attributed to the unit by the journal);
//!  * `max <= 2*context` (char and byte kind) is the "impossible configuration": must be `Err`;
//!  * char kind and full kind with a possible configuration: must be `Ok`;
//!  * byte kind with a possible configuration: `Ok` is demanded when every character has at most
//!    `max - 2*context` bytes (it fits in the smallest budget any window can have), `Err` is
//!    demanded when some character has more than `max` bytes (no context of at most `max` bytes can
//!    hold it).  In between (`max - 2*context < widest <= max`) the statement does not say whether
//!    the character "cannot fit" (that depends on how an implementation shares the budget between
//!    window and contexts), so both answers are tolerated there, an `Ok` answer still has to
//!    satisfy every clause below, and the two answers are counted in `hist`;
//!  * `Ok(ws)`: 1 <= |ws| <= n (the bound that makes "no endless loop" observable), the first window
//!    starts at 0, each starts where the previous ended, none is empty, the last ends at n; the
//!    byte window ranges are contiguous slices of the text whose concatenation is the text;
//!    `ctx_start <= window_start < window_end <= ctx_end <= n`; the context has at most `max`
//!    characters (char kind) resp. bytes (byte kind; judged on the harness' offsets and on the
//!    reported ones); `str == s[off[ctx_start]..off[ctx_end]]`; the four byte boundaries equal
//!    `off[..]` of the four character boundaries.  The full kind has no maximum.
//!
//! Oracle for the substring helpers.  Reading of their contract (taken from their only user,
//! `data::preprocessing::substring`, which draws one entry uniformly and slices the text with it, from
//! the name `find_subsequences_of_max_size_k` and from the expected lists in the crate's own two
//! tests): the result is the set of *maximal* windows of consecutive characters — windows that stay
//! within the limit (characters resp. bytes) and cannot be extended by the neighbouring character on
//! either side without exceeding it — each given as (start byte, end byte, number of characters).
//! For the character variant this is "every window of exactly min(max, n) characters".  Asserted:
//! no panic (for max >= 1 and a non-empty text; max = 0 is not enumerated, no non-empty window
//! exists then), every entry is a non-empty character-aligned slice with the right character count
//! within the limit, and the *set* of entries equals the harness' own O(n^2) enumeration of maximal
//! windows (order and duplicates are not judged; duplicates are counted in `hist`).
use serde_json::{json, Value};
use std::collections::BTreeSet;
use text_utils::text::{possible_byte_substrings, possible_character_substrings};
use text_utils::windows::{windows, WindowConfig};
use tu_verif::enumerate::strings;
use tu_verif::guard::catch;
use tu_verif::refs;
use tu_verif::run::Run;

/// 1-, 2-, 3- and 4-byte code points, a 3-byte two-code-point cluster and an 8-byte cluster (a flag:
/// two regional indicators; in code-point mode two 4-byte characters)
const ALPHA: [&str; 6] = ["a", "ä", "€", "😀", "e\u{301}", "🇩🇪"];
const CRLF_ALPHA: [&str; 3] = ["a", "\r", "\n"];
const MAXES: std::ops::RangeInclusive<usize> = 1..=12;
const CONTEXTS: std::ops::RangeInclusive<usize> = 0..=4;

#[derive(Clone, Copy, PartialEq, Eq, Debug)]
enum Kind {
    Char,
    Byte,
    Full,
}

impl Kind {
    fn name(self) -> &'static str {
        match self {
            Kind::Char => "char",
            Kind::Byte => "byte",
            Kind::Full => "full",
        }
    }
    fn parse(s: &str) -> Kind {
        match s {
            "char" => Kind::Char,
            "byte" => Kind::Byte,
            "full" => Kind::Full,
            _ => panic!("bad window kind {s:?} in replay case"),
        }
    }
}

/// The text as the harness sees it: cluster byte lengths and offsets, computed without the crate.
struct Text<'a> {
    s: &'a str,
    g: bool,
    /// number of characters
    n: usize,
    /// off[i] = byte offset of character i, off[n] = s.len()
    off: Vec<usize>,
    widest: usize,
}

impl<'a> Text<'a> {
    fn new(s: &'a str, g: bool) -> Text<'a> {
        let cl: Vec<usize> = refs::chars(s, g).iter().map(|c| c.len()).collect();
        let mut off = Vec::with_capacity(cl.len() + 1);
        let mut acc = 0;
        off.push(0);
        for l in &cl {
            acc += l;
            off.push(acc);
        }
        assert_eq!(acc, s.len(), "harness: cluster lengths do not add up");
        Text { s, g, n: cl.len(), off, widest: cl.iter().copied().max().unwrap_or(0) }
    }
}

fn windows_case(t: &Text, kind: Kind, max: usize, ctx: usize) -> Value {
    json!({"fn": "windows", "s": t.s, "kind": kind.name(), "max": max, "context": ctx, "use_graphemes": t.g})
}

fn substrings_case(t: &Text, kind: Kind, max: usize) -> Value {
    json!({"fn": "substrings", "s": t.s, "kind": kind.name(), "max": max, "use_graphemes": t.g})
}

type Bounds = (usize, usize, usize, usize);

fn check_windows(run: &mut Run, t: &Text, kind: Kind, max: usize, ctx: usize) {
    run.evaluations += 1;
    run.sample(|| windows_case(t, kind, max, ctx));
    let case = || windows_case(t, kind, max, ctx);
    let (s, n, off) = (t.s, t.n, &t.off);
    let cfg = match kind {
        Kind::Char => WindowConfig::Character(max, ctx, t.g),
        Kind::Byte => WindowConfig::Bytes(max, ctx, t.g),
        Kind::Full => WindowConfig::Full(t.g),
    };
    // (the configuration arithmetic of the reference is done in u128: max and context may be huge)
    let (maxw, ctx2) = (max as u128, 2 * ctx as u128);
    let possible = kind == Kind::Full || maxw > ctx2;
    run.calls += 1;
    let r = catch(|| {
        windows(s, &cfg)
            .map(|ws| ws.iter().map(|w| (w.boundaries(), w.byte_boundaries(), w.str.to_string())).collect::<Vec<(Bounds, Bounds, String)>>())
            .map_err(|e| e.to_string())
    });
    let k = kind.name();
    let ws = match r {
        Err(p) => {
            run.violation("no-panic", "", case(), format!("windows panicked: {p}"));
            return;
        }
        Ok(Err(e)) => {
            run.compared += 1;
            if !possible {
                run.count(&format!("windows:{k}:err-impossible-config"));
            } else if kind != Kind::Byte {
                run.violation("possible-config-yields-windows", "", case(), format!("{k} windows with a possible configuration returned an error: {e}"));
            } else if t.widest as u128 + ctx2 <= maxw {
                run.violation(
                    "error-only-if-a-character-cannot-fit",
                    "",
                    case(),
                    format!("byte windows returned an error although the widest character has {} bytes and even a window with two full contexts has max - 2*context = {} bytes: {e}", t.widest, maxw - ctx2),
                );
            } else {
                run.nontrivial += 1;
                run.count(if t.widest > max { "windows:byte:err-character-wider-than-max" } else { "windows:byte:err-tolerated-zone" });
            }
            return;
        }
        Ok(Ok(ws)) => ws,
    };
    run.compared += 1;
    run.outcome(&ws);
    if !possible {
        run.violation("impossible-config-yields-error", "", case(), format!("max = {max} <= 2 * context = {} but {} windows were returned", ctx2, ws.len()));
        return;
    }
    if kind == Kind::Byte && t.widest > max {
        run.violation("character-wider-than-max-yields-error", "", case(), format!("a character has {} bytes, max is {max}, but {} windows were returned", t.widest, ws.len()));
    }
    if kind == Kind::Byte && t.widest as u128 + ctx2 > maxw {
        run.count("windows:byte:ok-tolerated-zone");
    } else {
        run.count(&format!("windows:{k}:ok"));
    }
    if ws.len() > 1 {
        run.nontrivial += 1;
    }
    if ws.is_empty() || ws.len() > n {
        run.violation("at-most-one-window-per-character", "", case(), format!("{} windows for a text of {n} characters", ws.len()));
        if ws.is_empty() {
            return;
        }
    }
    // each clause is reported at most once per case, for the first window that breaks it
    let mut seen: Vec<&'static str> = vec![];
    let mut fail = |run: &mut Run, clause: &'static str, detail: String| {
        if !seen.contains(&clause) {
            seen.push(clause);
            run.violation(clause, "", case(), detail);
        }
    };
    let mut prev_end = 0usize;
    let mut prev_byte_end = 0usize;
    let mut concat = String::with_capacity(s.len());
    for (i, ((cs, wst, wen, ce), (bcs, bws, bwe, bce), st)) in ws.iter().enumerate() {
        let (cs, wst, wen, ce, bcs, bws, bwe, bce) = (*cs, *wst, *wen, *ce, *bcs, *bws, *bwe, *bce);
        let show = format!("window {i}: boundaries {:?}, byte boundaries {:?}, str {st:?}", (cs, wst, wen, ce), (bcs, bws, bwe, bce));
        // tiling of the character sequence
        if i == 0 && wst != 0 {
            fail(run, "first-window-starts-at-0", show.clone());
        }
        if i > 0 && wst != prev_end {
            fail(run, "window-starts-where-previous-ended", format!("previous window ended at {prev_end}; {show}"));
        }
        if wen <= wst {
            fail(run, "window-not-empty", show.clone());
        }
        prev_end = wen;
        // the byte ranges of the windows concatenate to the text
        if bws != prev_byte_end {
            fail(run, "byte-ranges-concatenate-to-text", format!("previous byte window ended at {prev_byte_end}; {show}"));
        }
        match s.get(bws..bwe) {
            Some(part) => concat.push_str(part),
            None => fail(run, "byte-ranges-concatenate-to-text", format!("byte window range is not a slice of the text; {show}")),
        }
        prev_byte_end = bwe;
        // context contains the window and lies inside the text
        if !(cs <= wst && wst < wen && wen <= ce && ce <= n) {
            fail(run, "context-contains-window", format!("text has {n} characters; {show}"));
            continue; // off[..] below needs boundaries inside the text
        }
        // size limit
        match kind {
            Kind::Char => {
                if ce - cs > max {
                    fail(run, "context-within-max", format!("context has {} characters, max is {max}; {show}", ce - cs));
                }
            }
            Kind::Byte => {
                let real = off[ce] - off[cs];
                let reported = bce.saturating_sub(bcs);
                if real > max || reported > max {
                    fail(run, "context-within-max", format!("context has {real} bytes ({reported} by the reported byte boundaries), max is {max}; {show}"));
                }
            }
            Kind::Full => {}
        }
        // reported string is the context slice
        if st != &s[off[cs]..off[ce]] {
            fail(run, "str-is-context-slice", format!("expected {:?}; {show}", &s[off[cs]..off[ce]]));
        }
        // byte and character boundaries denote the same positions
        let expect = (off[cs], off[wst], off[wen], off[ce]);
        if (bcs, bws, bwe, bce) != expect {
            fail(run, "byte-boundaries-match-char-boundaries", format!("expected byte boundaries {expect:?}; {show}"));
        }
    }
    if prev_end != n {
        fail(run, "last-window-ends-at-text-length", format!("last window ends at {prev_end}, the text has {n} characters"));
    }
    if prev_byte_end != s.len() || concat != s {
        fail(run, "byte-ranges-concatenate-to-text", format!("the byte window ranges concatenate to {concat:?} (last ends at byte {prev_byte_end} of {})", s.len()));
    }
}

/// the harness' own enumeration of maximal windows: [i, j) fits and neither [i-1, j) nor [i, j+1) does
fn maximal_windows(t: &Text, kind: Kind, max: usize) -> BTreeSet<(usize, usize, usize)> {
    let size = |i: usize, j: usize| if kind == Kind::Char { j - i } else { t.off[j] - t.off[i] };
    let mut out = BTreeSet::new();
    for i in 0..t.n {
        for j in i + 1..=t.n {
            if size(i, j) <= max && (i == 0 || size(i - 1, j) > max) && (j == t.n || size(i, j + 1) > max) {
                out.insert((t.off[i], t.off[j], j - i));
            }
        }
    }
    out
}

fn check_substrings(run: &mut Run, t: &Text, kind: Kind, max: usize) {
    run.evaluations += 1;
    run.sample(|| substrings_case(t, kind, max));
    let case = || substrings_case(t, kind, max);
    let k = kind.name();
    run.calls += 1;
    let r = catch(|| match kind {
        Kind::Char => possible_character_substrings(t.s, max, t.g),
        Kind::Byte => possible_byte_substrings(t.s, max, t.g),
        Kind::Full => unreachable!("harness: no full substrings"),
    });
    let got = match r {
        Err(p) => {
            run.violation("substrings-no-panic", "", case(), format!("possible_{k}_substrings panicked: {p}"));
            return;
        }
        Ok(v) => v,
    };
    run.compared += 1;
    run.outcome(&(k, &got));
    let (mut aligned, mut counted, mut limited) = (true, true, true);
    for &(sb, eb, nc) in &got {
        let (i, j) = (t.off.binary_search(&sb), t.off.binary_search(&eb));
        match (i, j) {
            (Ok(i), Ok(j)) if i < j => {
                if nc != j - i && counted {
                    counted = false;
                    run.violation("substring-character-count", "", case(), format!("entry {:?} spans {} characters", (sb, eb, nc), j - i));
                }
                let size = if kind == Kind::Char { j - i } else { eb - sb };
                if size > max && limited {
                    limited = false;
                    run.violation("substring-within-limit", "", case(), format!("entry {:?} has size {size}, limit is {max}", (sb, eb, nc)));
                }
            }
            _ => {
                if aligned {
                    aligned = false;
                    run.violation("substring-is-character-aligned-slice", "", case(), format!("entry {:?} is not a non-empty range between character boundaries {:?}", (sb, eb, nc), t.off));
                }
            }
        }
    }
    let expect = maximal_windows(t, kind, max);
    let got_set: BTreeSet<(usize, usize, usize)> = got.iter().copied().collect();
    if got_set.len() != got.len() {
        run.count("substrings:duplicates-returned");
    }
    if expect.len() != 1 {
        run.nontrivial += 1;
    }
    run.count(&format!("substrings:{k}:{}", match expect.len() { 0 => "none-fits", 1 => "one", _ => "several" }));
    if got_set != expect {
        run.violation("substrings-are-the-maximal-windows", "", case(), format!("returned {got:?}, the maximal windows are {expect:?}"));
    }
}

fn check_case(run: &mut Run, c: &Value) {
    let s = c["s"].as_str().unwrap();
    let t = Text::new(s, c["use_graphemes"].as_bool().unwrap());
    let kind = Kind::parse(c["kind"].as_str().unwrap());
    let max = c["max"].as_u64().unwrap() as usize;
    match c["fn"].as_str().unwrap() {
        "windows" => check_windows(run, &t, kind, max, c["context"].as_u64().unwrap() as usize),
        "substrings" => check_substrings(run, &t, kind, max),
        f => panic!("bad fn {f:?} in replay case"),
    }
}

/// Caps the address space of this process: a subject loop that never terminates and allocates (the
/// window list) then aborts within a second instead of exhausting the machine before the watchdog's
/// 10 s are over; the driver attributes the abort to the journalled unit.
fn limit_address_space(bytes: u64) {
    #[repr(C)]
    struct RLimit {
        cur: u64,
        max: u64,
    }
    extern "C" {
        fn setrlimit(resource: i32, rlim: *const RLimit) -> i32;
    }
    const RLIMIT_AS: i32 = 9; // Linux
    let lim = RLimit { cur: bytes, max: bytes };
    // failure to set the limit is harmless: the watchdog still catches the hang
    let _ = unsafe { setrlimit(RLIMIT_AS, &lim) };
}

fn main() {
    let mut run = Run::from_env("C16");
    if cfg!(target_os = "linux") {
        limit_address_space(1 << 30);
    }
    if let Some(c) = run.replay_case() {
        check_case(&mut run, &c);
        run.finish();
    }
    let max_len = run.pick(5, 7);
    // non-empty strings only: the statement is about non-empty texts
    let mut all: Vec<String> = strings(&ALPHA, max_len).into_iter().skip(1).collect();
    // second family: pure-ASCII texts in which a character is nevertheless two bytes / two code
    // points -- CR LF is one grapheme cluster (units follow the first family's)
    all.extend(strings(&CRLF_ALPHA, max_len + 1).into_iter().filter(|s| s.contains('\r') || s.contains('\n')));
    // clusters that exist only under the *extended* grapheme rules (a base letter with a spacing
    // vowel sign, Devanagari and Thai): legacy segmentation would count two characters
    all.extend(strings(&["a", "\u{915}\u{93f}", "\u{e01}\u{e33}"], 3).into_iter().filter(|s| !s.is_ascii()));
    // a single grapheme cluster whose byte length crosses 2^8 (a base letter with 127 / 128 combining
    // marks = 255 / 257 bytes): alone, between letters, two in a row
    {
        let g = |marks: usize| format!("e{}", "\u{301}".repeat(marks));
        all.extend([g(127), g(128), format!("a{}b", g(128)), format!("{}{}", g(128), g(127))]);
    }
    // third family: long texts (lengths around the powers of two a size threshold would sit at) of
    // repeated symbols of mixed widths
    for n in tu_verif::enumerate::threshold_lengths(run.pick(6, 8)) {
        for pat in [&["a"][..], &["a", "ä", "😀"][..], &["e\u{301}", "a", "\r", "\n"][..], &["\u{0}", "a", "\u{10ffff}"][..]] {
            all.push(tu_verif::enumerate::repeat_symbols(pat, n));
        }
    }
    let grid = format!("max {MAXES:?} x context {CONTEXTS:?} x {{char, byte}} windows, the full window, possible_{{character,byte}}_substrings with max {MAXES:?}; all x use_graphemes");
    if let Some(n) = run.describe_unit() {
        println!("{}", json!({"s": all[n as usize], "grid": grid}));
        return;
    }
    run.bounds.insert("alphabet".into(), json!(ALPHA));
    run.bounds.insert("second_alphabet".into(), json!({"symbols": CRLF_ALPHA, "symbols_per_string": format!("1..={}", max_len + 1), "rule": "strings with at least one CR or LF"}));
    run.bounds.insert("symbols_per_string".into(), json!(format!("1..={max_len}")));
    run.bounds.insert("strings".into(), json!(all.len()));
    run.bounds.insert("max".into(), json!(format!("{MAXES:?}")));
    run.bounds.insert("context".into(), json!(format!("{CONTEXTS:?}")));
    run.bounds.insert("kinds".into(), json!("char, byte (each max x context), full (once); possible_character_substrings, possible_byte_substrings (each max)"));
    run.bounds.insert("use_graphemes".into(), json!([false, true]));
    run.extra.insert(
        "rule".into(),
        json!("every non-empty string over the alphabet up to the length bound (shortlex; one unit per string) x use_graphemes x [full window; for every max: both substring helpers; for every max and context: char and byte windows], all enumerated exhaustively. A windows case is non-trivial when it yields at least two windows or a byte-window error with a possible configuration (character too wide); a substrings case is non-trivial when the reference set of maximal windows is not the single whole text"),
    );
    run.assumptions.push("unicode-segmentation (extended grapheme clusters) is trusted: the harness' offset table comes from refs::chars".into());
    run.assumptions.push("byte windows with a possible configuration and max - 2*context < widest character <= max may answer Ok or Err (both counted in hist); an Ok answer must satisfy every clause".into());
    for (idx, s) in all.iter().enumerate() {
        if !run.unit(idx as u64) {
            continue;
        }
        if run.out_of_time() {
            break;
        }
        for g in [false, true] {
            let t = Text::new(s, g);
            check_windows(&mut run, &t, Kind::Full, 0, 0);
            // the extremes of the configuration space: "no limit" spelled as the largest values, with
            // no context, a small one, and contexts of the same order (impossible configurations)
            for max in [usize::MAX, usize::MAX - 1, 1 << 63] {
                check_substrings(&mut run, &t, Kind::Char, max);
                check_substrings(&mut run, &t, Kind::Byte, max);
                for ctx in [0, 1, usize::MAX / 2, usize::MAX / 2 + 1, usize::MAX] {
                    check_windows(&mut run, &t, Kind::Char, max, ctx);
                    check_windows(&mut run, &t, Kind::Byte, max, ctx);
                }
            }
            // long texts: window sizes around powers of two as well
            if t.n > 12 {
                for max in tu_verif::enumerate::threshold_lengths(8) {
                    check_substrings(&mut run, &t, Kind::Char, max);
                    check_substrings(&mut run, &t, Kind::Byte, max);
                    for ctx in [0, 1, max / 4, (max - 1) / 2, max / 2] {
                        check_windows(&mut run, &t, Kind::Char, max, ctx);
                        check_windows(&mut run, &t, Kind::Byte, max, ctx);
                    }
                }
            }
            for max in MAXES {
                check_substrings(&mut run, &t, Kind::Char, max);
                check_substrings(&mut run, &t, Kind::Byte, max);
                for ctx in CONTEXTS {
                    check_windows(&mut run, &t, Kind::Char, max, ctx);
                    check_windows(&mut run, &t, Kind::Byte, max, ctx);
                }
            }
        }
    }
    run.finish();
}
