//! C14 — whitespace corruption changes only whitespace and stays label-consistent.
//! Engine A with owned randomness (DESIGN 3.3, second seam): `corrupt_whitespace` seeds a ChaCha8
//! generator from `TextDataInfo::seed` and makes one threshold draw `random::<f64>() < p` per
//! character of the text (in the mode's characters, left to right, whitespace included). For
//! p = (1/2, 1/2) the harness enumerates ALL decision vectors of those draws by looking up, for every
//! bit vector, the smallest seed producing it (`srng::seed_table`). That the table really reaches
//! everything is not assumed but checked: per text the set of distinct corrupted inputs must equal
//! the set of all clean re-spacings of the text (the reference-reachable set).
use serde_json::{json, Value};
use std::collections::BTreeSet;
use text_utils::data::preprocessing::{preprocessing, Part, PreprocessingFn, PreprocessingFnConfig};
use text_utils::data::task::{train_task, TaskFn, TrainTaskConfig};
use text_utils::data::{TextDataInfo, TrainData, TrainTaskInput};
use text_utils::tokenization::{ByteGroups, ByteTokenizerConfig, GroupAggregation, SpecialConfig, TokenizeConfig, TokenizerConfig};
use text_utils::whitespace::{self, Operation};
use tu_verif::enumerate::sequences;
use tu_verif::guard::catch;
use tu_verif::refs;
use tu_verif::run::Run;
use tu_verif::srng;

const ALPHA: [&str; 4] = ["a", "ä", "e\u{301}", "\u{e0}"];
/// probe alphabet (DESIGN 6): symbols inside the stated domain whose grapheme clusters merge when a
/// separating space disappears — regional indicators and conjoining Hangul jamo (L + V)
/// a letter and the spelling of a special token of the task's tokenizer (plain text for the task)
const SPECIAL_TEXT: [&str; 2] = ["a", "<pad>"];
const PROBE: [&str; 5] = ["a", "\u{1F1E9}", "\u{1F1EA}", "\u{1100}", "\u{1161}"];
const D9: &str = "D9-cluster-sequence-differs";
/// (insert probability, delete probability) pairs run with the seeds 0..EXTRA_SEEDS
const EXTRA_PROBS: [(f64, f64); 5] = [(0.0, 1.0), (1.0, 0.0), (1.0, 1.0), (0.0, 0.5), (0.5, 0.0)];
const EXTRA_SEEDS: u64 = 8;
const NUM_PREFIX: usize = 1;
const NUM_SUFFIX: usize = 1;

struct Unit {
    probe: bool,
    text: String,
    g: bool,
}

/// the clean text made of the symbols `w` with a single space in gap i iff bit i of `gaps`
fn build_text(alpha: &[&str], w: &[usize], gaps: u32) -> String {
    let mut t = String::new();
    for (i, s) in w.iter().enumerate() {
        t.push_str(alpha[*s]);
        if i + 1 < w.len() && gaps >> i & 1 == 1 {
            t.push(' ');
        }
    }
    t
}

fn units(max_w: usize, max_w_probe: usize) -> Vec<Unit> {
    let mut out = vec![];
    // (third family: texts that spell a special token of the task's tokenizer)
    for (probe, alpha, mw) in [(false, &ALPHA[..], max_w), (true, &PROBE[..], max_w_probe), (false, &SPECIAL_TEXT[..], 2)] {
        for w in sequences(alpha.len(), mw) {
            let ngaps = w.len().saturating_sub(1);
            for gaps in 0..(1u32 << ngaps) {
                for g in [false, true] {
                    out.push(Unit { probe, text: build_text(alpha, &w, gaps), g });
                }
            }
        }
    }
    // equal-cost neighbours (a unit costs 2^characters cases), so that taking every 16th unit gives
    // balanced shards; still simplest first
    out.sort_by_key(|u| (u.probe, refs::chars(&u.text, u.g).len()));
    out
}

/// All clean re-spacings of `text`: its non-whitespace characters (in the given mode) with every gap
/// independently empty or a single space. This is what the statement allows as corrupted input and,
/// at probabilities (1/2, 1/2), what must be reachable.
fn respacings(text: &str, g: bool) -> BTreeSet<String> {
    let cs = refs::nonws_chars(text, g);
    let mut out = BTreeSet::new();
    if cs.is_empty() {
        out.insert(String::new());
        return out;
    }
    for gaps in 0..(1u64 << (cs.len() - 1)) {
        let mut t = String::new();
        for (i, c) in cs.iter().enumerate() {
            t.push_str(c);
            if i + 1 < cs.len() && gaps >> i & 1 == 1 {
                t.push(' ');
            }
        }
        out.insert(t);
    }
    out
}

/// for every non-whitespace code point except the last: is it followed by whitespace?
/// (plus, as entry 0, whether the string starts with whitespace)
fn gap_vector(s: &str) -> Vec<bool> {
    let mut v = vec![false];
    for c in s.chars() {
        if c.is_whitespace() {
            *v.last_mut().unwrap() = true;
        } else {
            v.push(false);
        }
    }
    v
}

struct Subject {
    /// [use_graphemes] -> task function
    tasks: [Box<TaskFn>; 2],
}

fn corruption(pi: f64, pd: f64, g: bool) -> Box<PreprocessingFn> {
    preprocessing(PreprocessingFnConfig::WhitespaceCorruption(Part::Input, pi, pd, g))
}

fn task(g: bool) -> Box<TaskFn> {
    let special = SpecialConfig { prefix: vec!["<bos>".to_string()], suffix: vec!["<eos>".to_string()], ..SpecialConfig::default() };
    assert_eq!((special.prefix.len(), special.suffix.len()), (NUM_PREFIX, NUM_SUFFIX));
    let tokenize = TokenizeConfig::Byte(ByteTokenizerConfig { use_graphemes: g, pad_to_multiple_of: None, groups: ByteGroups::Bytes, aggregation: GroupAggregation::Mean });
    train_task(TrainTaskConfig::WhitespaceCorrection(g, TokenizerConfig { tokenize, special }))
}

fn case_json(text: &str, g: bool, pi: f64, pd: f64, seed: u64, vector: Option<u64>, nch: usize) -> Value {
    let bits = vector.map(|v| (0..nch).map(|i| if v >> i & 1 == 1 { '1' } else { '0' }).collect::<String>());
    json!({"text": text, "use_graphemes": g, "insert_p": pi, "delete_p": pd, "seed": seed, "decisions_below_half_per_character": bits})
}

/// One case: corrupt `text` with the given probabilities and seed and judge every clause of the
/// statement. Returns the corrupted input (None after a panic / error).
#[allow(clippy::too_many_arguments)]
fn check(run: &mut Run, sub: &Subject, f: &PreprocessingFn, text: &str, g: bool, pi: f64, pd: f64, seed: u64, vector: Option<u64>) -> Option<String> {
    run.evaluations += 1;
    let nch = refs::chars(text, g).len();
    let case = || case_json(text, g, pi, pd, seed, vector, nch);
    run.sample(case);
    let info = TextDataInfo { seed, ..Default::default() };
    let call = |info: &TextDataInfo| catch(|| f(TrainData::new(text.to_string(), None), info.clone()));
    run.calls += 2;
    // the second call has the same text and seed but comes from another source file and carries a
    // mark: the result is a function of (text, seed), not of the rest of the item's bookkeeping
    let elsewhere = TextDataInfo { seed, file_idx: 3, marks: [("mark".to_string(), "x".to_string())].into_iter().collect() };
    let (first, second) = (call(&info), call(&elsewhere));
    let item = match first {
        Err(p) => {
            run.violation("no-panic", "", case(), format!("whitespace corruption panicked: {p}"));
            return None;
        }
        Ok(Err(e)) => {
            run.violation("corruption-succeeds", "", case(), format!("whitespace corruption of a clean text returned an error: {e}"));
            return None;
        }
        Ok(Ok((item, _))) => item,
    };
    let (input, target) = (item.verif_input().to_string(), item.verif_target().to_string());
    run.compared += 1;
    run.outcome(&(text, g, &input));
    if input != text {
        run.nontrivial += 1;
    }
    // known-defect class D9 (DESIGN 8): in grapheme mode the clusters of input and target differ
    // although only whitespace was changed (clusters merged where a space disappeared)
    let class = if g && refs::nonws_chars(&input, true) != refs::nonws_chars(&target, true) { D9 } else { "" };
    // deterministic function of (text, seed)
    match second {
        Ok(Ok((again, _))) if again.verif_input() == input && again.verif_target() == target => {}
        Ok(Ok((again, _))) => run.violation("deterministic", "", case(), format!("same (text, seed) gave input {input:?} and then (as an item of source file 3) {:?}", again.verif_input())),
        _ => run.violation("deterministic", "", case(), "the second call (same text and seed, item of source file 3) failed".to_string()),
    }
    if target != text {
        run.violation("target-untouched", "", case(), format!("target became {target:?}"));
    }
    // weakest reading (DESIGN 6): "same non-whitespace character sequence" at code-point level
    let same_content = refs::strip_ws_code_points(&input) == refs::strip_ws_code_points(text);
    if !same_content {
        run.violation("same-non-whitespace-sequence", "", case(), format!("input {input:?} differs from the text in more than whitespace"));
    }
    // clean at the level the mode works on
    if !refs::is_clean(&input, g) {
        run.violation("input-clean", "", case(), format!("input {input:?} is not whitespace-clean"));
    }
    if same_content {
        let (tg, ig) = (gap_vector(text), gap_vector(&input));
        if pd == 0.0 && tg.iter().zip(&ig).any(|(t, i)| *t && !*i) {
            run.violation("delete-probability-zero-keeps-whitespace", "", case(), format!("input {input:?} lost a space"));
        }
        if pi == 0.0 && tg.iter().zip(&ig).any(|(t, i)| !*t && *i) {
            run.violation("insert-probability-zero-adds-no-whitespace", "", case(), format!("input {input:?} gained a space"));
        }
    }
    // operations / repair recover the original text, one label per input character
    let nin = refs::chars(&input, g).len();
    run.calls += 1;
    match catch(|| whitespace::operations(&input, &target, g)) {
        Err(p) => run.violation("no-panic", class, case(), format!("operations({input:?}, {target:?}) panicked: {p}")),
        Ok(Err(e)) => run.violation("labels-recover-target", class, case(), format!("operations({input:?}, {target:?}) failed: {}", first_line(&e.to_string()))),
        Ok(Ok(ops)) => {
            if ops.len() != nin {
                run.violation("labels-recover-target", class, case(), format!("operations({input:?}, {target:?}) gave {} labels for {nin} characters", ops.len()));
            } else {
                run.calls += 1;
                match catch(|| whitespace::repair(&input, &ops, g)) {
                    Ok(Ok(r)) if r == target => {}
                    other => run.violation("labels-recover-target", class, case(), format!("repair({input:?}, {ops:?}) gave {} instead of {target:?}", show(other))),
                }
            }
        }
    }
    // the task obtains one label per input character (between prefix and suffix labels)
    run.calls += 1;
    match catch(|| sub.tasks[g as usize](&item)) {
        Err(p) => run.violation("no-panic", class, case(), format!("train_task(WhitespaceCorrection) panicked on input {input:?}: {p}")),
        Ok(Err(e)) => run.violation("task-labels-recover-target", class, case(), format!("train_task(WhitespaceCorrection) failed on input {input:?}: {}", first_line(&e.to_string()))),
        Ok(Ok(TrainTaskInput::SequenceClassification { labels, token_ids, .. })) => {
            // the labels belong to the characters of the input: the token ids of the (byte) tokenizer
            // must be the bytes of that input, whatever it spells
            let inner: Vec<u32> = token_ids.iter().copied().skip(NUM_PREFIX).take(token_ids.len().saturating_sub(NUM_PREFIX + NUM_SUFFIX)).collect();
            if inner != input.bytes().map(u32::from).collect::<Vec<u32>>() {
                run.violation("task-token-ids-are-the-input-bytes", class, case(), format!("task token ids {token_ids:?} for input {input:?} ({} bytes)", input.len()));
            }
            let inner_ok = labels.len() == NUM_PREFIX + nin + NUM_SUFFIX;
            if !inner_ok {
                run.violation("task-labels-recover-target", class, case(), format!("task gave {} labels for input {input:?}: expected {NUM_PREFIX} + {nin} characters + {NUM_SUFFIX}", labels.len()));
            } else {
                let ops: Option<Vec<Operation>> = labels[NUM_PREFIX..NUM_PREFIX + nin]
                    .iter()
                    .map(|l| match l {
                        0 => Some(Operation::Keep),
                        1 => Some(Operation::Insert),
                        2 => Some(Operation::Delete),
                        _ => None,
                    })
                    .collect();
                let edges_ok = labels[..NUM_PREFIX].iter().chain(&labels[NUM_PREFIX + nin..]).all(|l| *l == -1);
                match ops {
                    Some(ops) if edges_ok => {
                        run.calls += 1;
                        match catch(|| whitespace::repair(&input, &ops, g)) {
                            Ok(Ok(r)) if r == target => {}
                            other => run.violation("task-labels-recover-target", class, case(), format!("task labels {labels:?} applied to input {input:?} give {} instead of {target:?}", show(other))),
                        }
                    }
                    _ => run.violation("task-labels-recover-target", class, case(), format!("task labels {labels:?} for input {input:?} are not -1 | operations | -1")),
                }
            }
        }
        Ok(Ok(other)) => run.violation("task-labels-recover-target", "", case(), format!("task returned {other:?}")),
    }
    Some(input)
}

/// `srng::seed_table` with progress ticks (2^17 entries take seconds on a loaded machine): for every
/// bit vector v of length n the smallest seed whose first n decisions at p = 1/2 are v (bit i = i-th
/// draw below 1/2)
/// The function returned by `preprocessing(..)` is an object that lives as long as the loader: its
/// result for (text, seed) must not depend on what it was called with before. One case: a fresh
/// function object is called with `first` and then with `second`; the second result must equal what
/// another fresh object returns for `second` alone.
#[allow(clippy::too_many_arguments)]
fn check_history(run: &mut Run, first: &str, second: &str, g: bool, pi: f64, pd: f64, seed1: u64, seed2: u64) {
    run.evaluations += 1;
    run.nontrivial += 1;
    let case = || json!({"history_phase": true, "first": first, "second": second, "use_graphemes": g, "insert_p": pi, "delete_p": pd, "seed_first": seed1, "seed_second": seed2});
    run.sample(case);
    let call = |f: &PreprocessingFn, text: &str, seed: u64| catch(|| f(TrainData::new(text.to_string(), None), TextDataInfo { seed, ..Default::default() })).map(|r| r.map(|(item, _)| (item.verif_input().to_string(), item.verif_target().to_string())).map_err(|e| e.to_string()));
    let shared = corruption(pi, pd, g);
    run.calls += 3;
    let _ = call(&shared, first, seed1);
    let after = call(&shared, second, seed2);
    let alone = call(&corruption(pi, pd, g), second, seed2);
    run.compared += 1;
    if after != alone {
        run.violation("result-independent-of-earlier-calls", "", case(), format!("after an earlier call on {first:?} the same function object turns {second:?} into {after:?}; a fresh one gives {alone:?}"));
    }
}

fn seed_table(run: &Run, n: usize) -> Vec<u64> {
    let total = 1usize << n;
    let mut table = vec![u64::MAX; total];
    let (mut found, mut seed) = (0, 0u64);
    while found < total {
        let key = srng::decisions(seed, n, 0.5).iter().enumerate().fold(0usize, |k, (i, b)| k | (*b as usize) << i);
        if table[key] == u64::MAX {
            table[key] = seed;
            found += 1;
        }
        seed += 1;
        if seed & 0xffff == 0 {
            run.tick();
        }
        assert!(seed < 1 << 32, "seed table search did not converge");
    }
    table
}

fn first_line(s: &str) -> String {
    s.lines().next().unwrap_or("").to_string()
}

fn show(r: Result<anyhow::Result<String>, String>) -> String {
    match r {
        Ok(Ok(s)) => format!("{s:?}"),
        Ok(Err(e)) => format!("error {:?}", first_line(&e.to_string())),
        Err(p) => format!("panic {p:?}"),
    }
}

fn main() {
    let mut run = Run::from_env("C14");
    if let Err(e) = srng::selftest() {
        run.violation("machinery-rng-selftest", "machinery", json!({}), e);
    }
    let sub = Subject { tasks: [task(false), task(true)] };
    if let Some(c) = run.replay_case() {
        let (g, pi, pd) = (c["use_graphemes"].as_bool().unwrap(), c["insert_p"].as_f64().unwrap(), c["delete_p"].as_f64().unwrap());
        if c.get("history_phase").is_some() {
            check_history(&mut run, c["first"].as_str().unwrap(), c["second"].as_str().unwrap(), g, pi, pd, c["seed_first"].as_u64().unwrap(), c["seed_second"].as_u64().unwrap());
            run.finish();
        }
        let f = corruption(pi, pd, g);
        // a violated determinism clause shows only with some probability per pair of calls: repeat
        // the case until a violation shows (64 times at most)
        for _ in 0..64 {
            check(&mut run, &sub, &f, c["text"].as_str().unwrap(), g, pi, pd, c["seed"].as_u64().unwrap(), None);
            if run.num_violations() > 0 {
                break;
            }
        }
        run.finish();
    }
    let max_w = run.pick(4, 6);
    let max_w_probe = run.pick(3, 4);
    let all = units(max_w, max_w_probe);
    if let Some(n) = run.describe_unit() {
        let u = &all[n as usize];
        let nch = refs::chars(&u.text, u.g).len();
        println!(
            "{}",
            json!({"phase": if u.probe { "probe alphabet" } else { "main alphabet" }, "text": u.text, "use_graphemes": u.g, "characters": nch,
                   "cases": format!("all 2^{nch} decision vectors at p=(1/2,1/2) + {} probability pairs x seeds 0..{EXTRA_SEEDS}", EXTRA_PROBS.len())})
        );
        return;
    }
    // one threshold draw per character: the table must cover the longest text
    let n_draws = all.iter().map(|u| refs::chars(&u.text, u.g).len()).max().unwrap();
    let t0 = run.elapsed();
    let table = seed_table(&run, n_draws);
    let table_s = run.elapsed() - t0;
    let half = [corruption(0.5, 0.5, false), corruption(0.5, 0.5, true)];
    let extra: Vec<[Box<PreprocessingFn>; 2]> = EXTRA_PROBS.iter().map(|(pi, pd)| [corruption(*pi, *pd, false), corruption(*pi, *pd, true)]).collect();

    run.bounds.insert("alphabet".into(), json!(ALPHA));
    run.bounds.insert("max_symbols_per_text".into(), json!(max_w));
    run.bounds.insert("probe_alphabet".into(), json!(PROBE));
    run.bounds.insert("probe_max_symbols_per_text".into(), json!(max_w_probe));
    run.bounds.insert("texts".into(), json!("every symbol sequence up to the bound (incl. the empty text) x every gap vector (single space or nothing between neighbours)"));
    run.bounds.insert("units_text_x_mode".into(), json!(all.len()));
    run.bounds.insert("use_graphemes".into(), json!([false, true]));
    run.bounds.insert("decision_vectors".into(), json!(format!("all 2^(characters of the text) at insert_p = delete_p = 1/2, via a seed table over {n_draws} draws ({} entries, largest seed {})", table.len(), table.iter().max().unwrap())));
    run.bounds.insert("other_probabilities_insert_delete".into(), json!(EXTRA_PROBS));
    run.bounds.insert("seeds_for_other_probabilities".into(), json!(format!("0..{EXTRA_SEEDS}")));
    run.bounds.insert("tokenizer".into(), json!("byte tokenizer, prefix <bos>, suffix <eos>"));
    run.extra.insert("seed_table_seconds".into(), json!(table_s));
    run.extra.insert(
        "rule".into(),
        json!("a unit is one (clean text, use_graphemes); its cases are every decision vector of the per-character threshold draws at p=(1/2,1/2) (seed looked up in the table) plus 5 further probability pairs x 8 seeds; every case runs preprocessing(WhitespaceCorruption) twice, operations, repair and train_task(WhitespaceCorrection); a case is non-trivial when the corrupted input differs from the text; hist reached/reachable compares, per unit, the distinct inputs produced with the set of all clean re-spacings of the text"),
    );
    run.assumptions.push("ChaCha8Rng::seed_from_u64(seed) followed by random::<f64>() < p is the decision procedure of corrupt_whitespace (public construction); not trusted blindly: a unit whose decision vectors do not reach every clean re-spacing is reported as a machinery error".into());

    // history phase: every ordered pair of the short clean texts (one unit per first text)
    {
        let texts: Vec<&Unit> = all.iter().filter(|u| !u.probe && !u.g && refs::chars(&u.text, false).len() <= run.pick(5, 6)).collect();
        run.bounds.insert("history_phase".into(), json!(format!("all ordered pairs of the {} clean texts with at most {} code points x use_graphemes x p in {{(1/2,1/2), (0,1), (1,0)}} x seeds {{0, 1}} for the second call", texts.len(), run.pick(5, 6))));
        let base_h = all.len() + tu_verif::enumerate::threshold_lengths(run.pick(8, 10)).len();
        for (i, a) in texts.iter().enumerate() {
            if !run.unit((base_h + i) as u64) {
                continue;
            }
            for b in &texts {
                for g in [false, true] {
                    if !refs::is_clean(&a.text, g) || !refs::is_clean(&b.text, g) {
                        continue;
                    }
                    for (pi, pd) in [(0.5, 0.5), (0.0, 1.0), (1.0, 0.0)] {
                        for seed2 in [0u64, 1] {
                            check_history(&mut run, &a.text, &b.text, g, pi, pd, 0, seed2);
                        }
                    }
                }
            }
        }
    }
    // long texts: character counts around the powers of two a size threshold would sit at. The decision
    // vectors of such texts cannot be enumerated; every clause is an invariant of any outcome, so the
    // long family uses the probability pairs and seeds of the "other probabilities" part
    {
        let lens = tu_verif::enumerate::threshold_lengths(run.pick(8, 10));
        run.bounds.insert("long_phase".into(), json!(format!("character counts {lens:?} x (3 clean repeated patterns, 2 short texts around one grapheme cluster of that many code points) x use_graphemes x (p = 1/2, 1/2 and the {} other probability pairs) x {EXTRA_SEEDS} seeds", EXTRA_PROBS.len())));
        for (k, n) in lens.iter().enumerate() {
            if !run.unit((all.len() + k) as u64) {
                continue;
            }
            // (and two short texts around one grapheme cluster of n code points)
            let w = format!("a{}", "\u{301}".repeat(*n - 1));
            let mut texts: Vec<String> = [&["a"][..], &["a", "ä", " "][..], &["e\u{301}", "a", "a", " ", "ä"][..]].iter().map(|pat| tu_verif::enumerate::repeat_symbols(pat, *n).trim().to_string()).collect();
            texts.extend([format!("x{w}y b"), format!("{w} {w}b")]);
            // (one repeated multi-byte character at every byte alignment, cut into words of 7)
            texts.extend(tu_verif::enumerate::byte_aligned_texts(*n).into_iter().map(|t| {
                let cs: Vec<char> = t.chars().collect();
                cs.chunks(7).map(|c| c.iter().collect::<String>()).collect::<Vec<_>>().join(" ")
            }));
            for text in texts {
                for g in [false, true] {
                    if !refs::is_clean(&text, g) {
                        continue;
                    }
                    for seed in 0..EXTRA_SEEDS {
                        check(&mut run, &sub, &half[g as usize], &text, g, 0.5, 0.5, seed, None);
                        for (j, (pi, pd)) in EXTRA_PROBS.iter().enumerate() {
                            check(&mut run, &sub, &extra[j][g as usize], &text, g, *pi, *pd, seed, None);
                        }
                    }
                }
            }
        }
    }
    for (idx, u) in all.iter().enumerate() {
        if !run.unit(idx as u64) {
            continue;
        }
        if run.out_of_time() {
            break;
        }
        let (text, g) = (u.text.as_str(), u.g);
        // stated domain (grapheme mode): no cluster mixes whitespace and non-whitespace; clean text
        if (g && refs::has_mixed_cluster(text)) || !refs::is_clean(text, g) {
            run.count("skipped-outside-domain");
            continue;
        }
        let nch = refs::chars(text, g).len();
        let mut reached: BTreeSet<String> = BTreeSet::new();
        let before = run.num_violations();
        for v in 0..(1u64 << nch) {
            if v & 0xfff == 0xfff {
                run.tick();
            }
            let seed = table[v as usize];
            if let Some(input) = check(&mut run, &sub, &half[g as usize], text, g, 0.5, 0.5, seed, Some(v)) {
                reached.insert(input);
            }
        }
        // coverage of the owned randomness: every clean re-spacing of the text must have been produced
        let reachable = respacings(text, g);
        let phase = if u.probe { "probe" } else { "main" };
        run.count_n(&format!("{phase}: distinct inputs reached at p=(1/2,1/2)"), reached.len() as u64);
        run.count_n(&format!("{phase}: reference-reachable inputs (all clean re-spacings)"), reachable.len() as u64);
        if !reachable.is_subset(&reached) && run.num_violations() == before {
            let missing: Vec<&String> = reachable.difference(&reached).take(3).collect();
            run.violation(
                "coverage-all-respacings-reached",
                "machinery",
                json!({"text": text, "use_graphemes": g}),
                format!("the {} decision vectors produced {} distinct inputs but {} clean re-spacings exist; not reached e.g. {missing:?}", 1u64 << nch, reached.len(), reachable.len()),
            );
        }
        let mut reached_extra: BTreeSet<(usize, String)> = BTreeSet::new();
        for (k, (pi, pd)) in EXTRA_PROBS.iter().enumerate() {
            for seed in 0..EXTRA_SEEDS {
                if let Some(input) = check(&mut run, &sub, &extra[k][g as usize], text, g, *pi, *pd, seed, None) {
                    reached_extra.insert((k, input));
                }
            }
        }
        run.count_n(&format!("{phase}: distinct (probability pair, input) at the other probabilities"), reached_extra.len() as u64);
    }
    run.finish();
}
