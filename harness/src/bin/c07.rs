//! C07 — the multi-source generator yields every item exactly once, in per-source order, and
//! terminates.
//! Engine A (isolated): every vector of in-memory sources up to a length bound x every strategy x
//! seeds, run on the real `MultiTrainDataGenerator`; sequential and interleaved are compared with
//! reference orders written from the statement (DESIGN 5/C07).
//!
//! Termination is decided by the driver contract: a unit is one (source lengths, strategy)
//! combination, a subject call that never returns trips the `Run` watchdog (exit status 3, unit in
//! the journal) and the driver confirms the unit in isolation. No timeouts in here; every
//! consumption loop is bounded by the number of items, so "yields too much" is a violation, not a hang.
use serde_json::{json, Value};
use text_utils::data::loading::{GenerationStrategy, MaybeTrainData, MultiTrainDataGenerator, TrainDataGenerator};
use text_utils::data::TrainData;
use tu_verif::enumerate::sequences;
use tu_verif::guard::catch;
use tu_verif::run::Run;

const STRATEGIES: [(GenerationStrategy, &str); 3] =
    [(GenerationStrategy::Sequential, "sequential"), (GenerationStrategy::Interleaved, "interleaved"), (GenerationStrategy::Weighted, "weighted")];
const SEEDS: u64 = 8;

/// which items of the sources are error items (an error item is an item of its source like any other)
static ERR_PATTERN: std::sync::atomic::AtomicUsize = std::sync::atomic::AtomicUsize::new(0);
const ERR_PATTERNS: [&str; 6] = ["none", "first item of every source", "last item of every source", "every item", "every second item", "every item of the odd sources"];

fn is_err(si: usize, k: usize, len: usize) -> bool {
    match ERR_PATTERN.load(std::sync::atomic::Ordering::Relaxed) {
        0 => false,
        1 => k == 0,
        2 => k + 1 == len,
        3 => true,
        4 => k % 2 == 1,
        _ => si % 2 == 1,
    }
}

fn case_json(lens: &[usize], strategy: usize, seed: u64) -> Value {
    json!({"lengths": lens, "strategy": STRATEGIES[strategy].1, "seed": seed, "error_items": ERR_PATTERNS[ERR_PATTERN.load(std::sync::atomic::Ordering::Relaxed)],
           "sources_announce_half_their_length": UNDER_REPORT.load(std::sync::atomic::Ordering::Relaxed) == 1})
}

/// what one `next()` returned: the item's (input, target) or the error text, and the source tag
type Yielded = (Result<(String, String), String>, usize);

struct Trace {
    items: Vec<Yielded>,
    /// `None` was returned within total+1 calls
    ended: bool,
    /// what one more `next()` after the end returned
    after_end: Option<Yielded>,
    calls: u64,
}

/// 1: every source with at least two items announces (`ExactSizeIterator::len`) only half of them --
/// the generator treats the announced length as a minimum (a weight, a non-emptiness test), what a
/// source holds is what it yields
static UNDER_REPORT: std::sync::atomic::AtomicUsize = std::sync::atomic::AtomicUsize::new(0);

struct Announced {
    inner: std::vec::IntoIter<MaybeTrainData>,
    announce: usize,
}

impl Iterator for Announced {
    type Item = MaybeTrainData;
    fn next(&mut self) -> Option<MaybeTrainData> {
        self.inner.next()
    }
    fn size_hint(&self) -> (usize, Option<usize>) {
        (self.announce, Some(self.announce))
    }
}

impl ExactSizeIterator for Announced {
    fn len(&self) -> usize {
        self.announce
    }
}

fn source(si: usize, len: usize) -> TrainDataGenerator {
    if UNDER_REPORT.load(std::sync::atomic::Ordering::Relaxed) == 1 && len >= 2 {
        let v: Vec<MaybeTrainData> = (0..len).map(|k| Ok(TrainData::new(format!("s{si}i{k}"), Some(format!("t{si}i{k}"))))).collect();
        return Box::new(Announced { inner: v.into_iter(), announce: len / 2 });
    }
    let v: Vec<MaybeTrainData> =
        (0..len).map(|k| if is_err(si, k, len) { Err(anyhow::anyhow!("es{si}i{k}")) } else { Ok(TrainData::new(format!("s{si}i{k}"), Some(format!("t{si}i{k}")))) }).collect();
    Box::new(v.into_iter())
}

fn observe(x: (MaybeTrainData, usize)) -> Yielded {
    (x.0.map(|d| (d.verif_input().to_string(), d.verif_target().to_string())).map_err(|e| e.to_string()), x.1)
}

/// Builds the generator over fresh sources and drains it with at most total+2 calls of `next`.
/// Outer `Err` = panic, inner `Err` = `new` refused.
fn drive(lens: &[usize], strategy: usize, seed: u64) -> Result<Result<Trace, String>, String> {
    catch(|| {
        let total: usize = lens.iter().sum();
        let gens: Vec<TrainDataGenerator> = lens.iter().enumerate().map(|(si, l)| source(si, *l)).collect();
        let mut g = match MultiTrainDataGenerator::new(gens, STRATEGIES[strategy].0, Some(seed)) {
            Ok(g) => g,
            Err(e) => return Err(e.to_string()),
        };
        let mut t = Trace { items: Vec::with_capacity(total), ended: false, after_end: None, calls: 1 };
        for _ in 0..total + 1 {
            t.calls += 1;
            match g.next() {
                Some(x) => t.items.push(observe(x)),
                None => {
                    t.ended = true;
                    break;
                }
            }
        }
        if t.ended {
            t.calls += 1;
            t.after_end = g.next().map(observe);
        }
        Ok(t)
    })
}

/// item text -> (source, position); `None` if no source contains such an item
fn parse(item: &(String, String)) -> Option<(usize, usize)> {
    let rest = item.0.strip_prefix('s')?;
    let (s, k) = rest.split_once('i')?;
    let (s, k): (usize, usize) = (s.parse().ok()?, k.parse().ok()?);
    if item.0 == format!("s{s}i{k}") && item.1 == format!("t{s}i{k}") {
        Some((s, k))
    } else {
        None
    }
}

/// sequential: the sources one after another
fn ref_sequential(lens: &[usize]) -> Vec<usize> {
    lens.iter().enumerate().flat_map(|(i, l)| std::iter::repeat(i).take(*l)).collect()
}

/// interleaved: round-robin (in source order, starting with the first) over the sources that still
/// have items
fn ref_round_robin(lens: &[usize]) -> Vec<usize> {
    let mut rem = lens.to_vec();
    let mut out = vec![];
    while rem.iter().any(|r| *r > 0) {
        for i in 0..rem.len() {
            if rem[i] > 0 {
                rem[i] -= 1;
                out.push(i);
            }
        }
    }
    out
}

fn show(items: &[Yielded]) -> String {
    let v: Vec<String> = items
        .iter()
        .map(|(d, tag)| match d {
            Ok((i, _)) => format!("{i}@{tag}"),
            Err(e) => format!("Err({e})@{tag}"),
        })
        .collect();
    format!("yielded (item@tag) [{}]", v.join(" "))
}

/// returns the sequence of source tags of a completed run
fn check(run: &mut Run, lens: &[usize], strategy: usize, seed: u64) -> Option<Vec<usize>> {
    run.evaluations += 1;
    run.sample(|| case_json(lens, strategy, seed));
    let case = || case_json(lens, strategy, seed);
    let total: usize = lens.iter().sum();
    let weighted = STRATEGIES[strategy].0 == GenerationStrategy::Weighted;
    let has_empty = lens.contains(&0);
    if lens.iter().filter(|l| **l > 0).count() >= 2 {
        run.nontrivial += 1;
    }
    let first = drive(lens, strategy, seed);
    let second = drive(lens, strategy, seed);
    let t = match first {
        Err(p) => {
            run.calls += 1;
            run.violation("no-panic", "", case(), format!("the generator panicked: {p}"));
            return None;
        }
        Ok(Err(e)) => {
            run.calls += 1;
            run.compared += 1;
            if !(weighted && has_empty) {
                run.violation("new-errors-iff-weighted-with-empty-source", "", case(), format!("MultiTrainDataGenerator::new returned an error: {e}"));
            } else {
                run.count("weighted with an empty source: refused by new (expected)");
            }
            return None;
        }
        Ok(Ok(t)) => t,
    };
    run.calls += t.calls;
    run.compared += 1;
    if weighted && has_empty {
        run.violation("new-errors-iff-weighted-with-empty-source", "", case(), "MultiTrainDataGenerator::new accepted an empty source under the weighted strategy".into());
    }
    // terminates
    if !t.ended {
        run.violation("terminates-within-total-plus-1-calls", "", case(), format!("{total} items in the sources, but {} calls of next() all returned an item: {}", total + 1, show(&t.items)));
    } else if let Some(x) = &t.after_end {
        run.violation("none-after-end", "", case(), format!("next() after the end returned {}", show(std::slice::from_ref(x))));
    }
    // exactly once, per-source order, tag
    let mut per = vec![0usize; lens.len()];
    let (mut bad_tag, mut bad_order, mut unknown) = (None, None, None);
    for (pos, (d, tag)) in t.items.iter().enumerate() {
        // (an error item carries its source and position in its text)
        let parsed = match d {
            Ok(item) => parse(item).filter(|(s, k)| *s < lens.len() && *k < lens[*s] && !is_err(*s, *k, lens[*s])),
            Err(e) => e.strip_prefix('e').and_then(|r| parse(&(r.to_string(), r.replacen('s', "t", 1)))).filter(|(s, k)| *s < lens.len() && *k < lens[*s] && is_err(*s, *k, lens[*s])),
        };
        match parsed {
            Some((s, k)) if s < lens.len() && k < lens[s] => {
                if *tag != s && bad_tag.is_none() {
                    bad_tag = Some(pos);
                }
                if k != per[s] && bad_order.is_none() {
                    bad_order = Some(pos);
                }
                per[s] += 1;
            }
            _ => {
                if unknown.is_none() {
                    unknown = Some(pos);
                }
            }
        }
    }
    if let Some(pos) = bad_tag {
        run.violation("source-tag", "", case(), format!("output {pos} carries the wrong source index: {}", show(&t.items)));
    }
    if let Some(pos) = bad_order {
        run.violation("per-source-order", "", case(), format!("output {pos} is out of its source's order: {}", show(&t.items)));
    }
    if unknown.is_some() || per != lens {
        run.violation(
            "exactly-once",
            "",
            case(),
            format!("items yielded per source {per:?}, source lengths {lens:?}{}: {}", unknown.map(|p| format!(", output {p} is not an item of any source")).unwrap_or_default(), show(&t.items)),
        );
    }
    // strategy order
    let tags: Vec<usize> = t.items.iter().map(|x| x.1).collect();
    match STRATEGIES[strategy].0 {
        GenerationStrategy::Sequential => {
            let expect = ref_sequential(lens);
            if tags != expect {
                run.violation("sequential-is-concatenation", "", case(), format!("source order {tags:?}, expected {expect:?}: {}", show(&t.items)));
            }
        }
        GenerationStrategy::Interleaved => {
            let expect = ref_round_robin(lens);
            if tags != expect {
                run.violation("interleaved-is-round-robin", "", case(), format!("source order {tags:?}, round-robin over the unfinished sources gives {expect:?}: {}", show(&t.items)));
            }
        }
        GenerationStrategy::Weighted => {}
    }
    // reproducible from the seed
    match second {
        Ok(Ok(t2)) => {
            run.calls += t2.calls;
            if t2.items != t.items || t2.ended != t.ended || t2.after_end != t.after_end {
                run.violation("deterministic-in-seed", "", case(), format!("two runs with the same seed differ: {} vs {}", show(&t.items), show(&t2.items)));
            }
        }
        Ok(Err(e)) => run.violation("deterministic-in-seed", "", case(), format!("the second construction with the same arguments failed: {e}")),
        Err(p) => run.violation("deterministic-in-seed", "", case(), format!("the second run with the same seed panicked: {p}")),
    }
    run.outcome(&(lens, strategy, &tags));
    Some(tags)
}

fn strategy_index(name: &str) -> usize {
    STRATEGIES.iter().position(|s| s.1 == name).expect("unknown strategy")
}

fn main() {
    let mut run = Run::from_env("C07");
    if let Some(c) = run.replay_case() {
        let lens: Vec<usize> = c["lengths"].as_array().unwrap().iter().map(|x| x.as_u64().unwrap() as usize).collect();
        UNDER_REPORT.store(usize::from(c["sources_announce_half_their_length"].as_bool().unwrap_or(false)), std::sync::atomic::Ordering::Relaxed);
        ERR_PATTERN.store(c["error_items"].as_str().and_then(|n| ERR_PATTERNS.iter().position(|p| *p == n)).unwrap_or(0), std::sync::atomic::Ordering::Relaxed);
        // a violated determinism clause may show only with some probability: repeat (16 times at most)
        for _ in 0..16 {
            check(&mut run, &lens, strategy_index(c["strategy"].as_str().unwrap()), c["seed"].as_u64().unwrap());
            if run.num_violations() > 0 {
                break;
            }
        }
        run.finish();
    }
    let max_sources = run.pick(3, 4);
    let max_len = run.pick(3, 4);
    // all vectors of 1..=max_sources lengths in 0..=max_len, shortlex (the empty vector is dropped)
    let vectors: Vec<Vec<usize>> = sequences(max_len + 1, max_sources).into_iter().filter(|v| !v.is_empty()).collect();
    let nunits = vectors.len() * STRATEGIES.len();
    if let Some(u) = run.describe_unit() {
        let u = u as usize;
        println!(
            "{}",
            json!({"lengths": vectors.get(u / STRATEGIES.len()), "strategy": STRATEGIES[u % STRATEGIES.len()].1, "seeds": format!("0..{SEEDS}"),
                   "sources": "in-memory ExactSizeIterators; source i holds items s{i}i0, s{i}i1, ..", "units": nunits})
        );
        return;
    }
    run.bounds.insert("max_sources".into(), json!(max_sources));
    run.bounds.insert("min_sources".into(), json!(1));
    run.bounds.insert("source_lengths".into(), json!(format!("0..={max_len}")));
    run.bounds.insert("length_vectors".into(), json!(vectors.len()));
    run.bounds.insert("strategies".into(), json!(["sequential", "interleaved", "weighted"]));
    run.bounds.insert("seeds".into(), json!(format!("0..{SEEDS}")));
    run.extra.insert(
        "rule".into(),
        json!("every vector of source lengths (shortlex) x every strategy = one unit, x every seed of the seed set; sources are in-memory ExactSizeIterators whose item text encodes (source, position); each case is built and drained twice with at most total+2 calls of next(); a call that does not return is caught by the shard watchdog and confirmed by the driver in isolation; a case is non-trivial when at least two sources are non-empty"),
    );
    run.assumptions.push("the list of sources is non-empty (TrainLoader::from_files refuses an empty file list; MultiTrainDataGenerator is not given an empty list by any caller)".into());
    run.assumptions.push("seeds outside 0..8 are not covered for the weighted strategy; its order is only required to be reproducible".into());
    // long sources: lengths around the powers of two a size threshold would sit at; also the largest
    // seed (the weighted strategy seeds a generator from it)
    {
        let lens = tu_verif::enumerate::threshold_lengths(run.pick(8, 10));
        run.bounds.insert("long_sources".into(), json!(format!("n in {lens:?}: source lengths [n], [n, 1], [1, n], [n, n - 1, 2] x every strategy x seeds {{0, 1, u64::MAX}} (the weighted strategy only for source lists without an empty source)")));
        for (k, n) in lens.iter().enumerate() {
            if !run.unit((nunits + k) as u64) {
                continue;
            }
            for lens in [vec![*n], vec![*n, 1], vec![1, *n], vec![*n, *n - 1, 2]] {
                for strategy in 0..STRATEGIES.len() {
                    for seed in [0u64, 1, u64::MAX] {
                        check(&mut run, &lens, strategy, seed);
                    }
                }
            }
        }
    }
    // many sources: source counts around the powers of two a threshold would sit at (a bit set in a
    // machine word, a fixed-size table), lengths 1, 0, 2 cyclically (the weighted strategy: 1, 2)
    {
        let counts = tu_verif::enumerate::threshold_lengths(run.pick(6, 8));
        let long_units = tu_verif::enumerate::threshold_lengths(run.pick(8, 10)).len();
        run.bounds.insert("many_sources".into(), json!(format!("source counts {counts:?} x every strategy x seeds {{0, 1}}")));
        for (k, c) in counts.iter().enumerate() {
            if !run.unit((nunits + long_units + k) as u64) {
                continue;
            }
            for strategy in 0..STRATEGIES.len() {
                let weighted = STRATEGIES[strategy].0 == GenerationStrategy::Weighted;
                let lens: Vec<usize> = (0..*c).map(|i| if weighted { 1 + i % 2 } else { [1, 0, 2][i % 3] }).collect();
                for seed in [0u64, 1] {
                    check(&mut run, &lens, strategy, seed);
                }
            }
        }
    }
    // sources with error items (a malformed line of a file is an item of its source): every length
    // vector up to a smaller bound x every strategy x two seeds x every pattern of error items
    {
        let long_units = tu_verif::enumerate::threshold_lengths(run.pick(8, 10)).len();
        let many_units = tu_verif::enumerate::threshold_lengths(run.pick(6, 8)).len();
        let small: Vec<Vec<usize>> = sequences(run.pick(3, 4), 3).into_iter().filter(|v| !v.is_empty()).collect();
        run.bounds.insert("error_items_phase".into(), json!(format!("{} length vectors (1..=3 sources of 0..={} items) x every strategy x seeds {{0, 1}} x error-item patterns {:?}", small.len(), run.pick(2, 3), &ERR_PATTERNS[1..])));
        for pat in 1..ERR_PATTERNS.len() {
            if !run.unit((nunits + long_units + many_units + pat - 1) as u64) {
                continue;
            }
            ERR_PATTERN.store(pat, std::sync::atomic::Ordering::Relaxed);
            for lens in &small {
                for strategy in 0..STRATEGIES.len() {
                    for seed in [0u64, 1] {
                        check(&mut run, lens, strategy, seed);
                    }
                }
            }
            ERR_PATTERN.store(0, std::sync::atomic::Ordering::Relaxed);
        }
    }
    // sources that hold more items than they announce: every small length vector x strategy x two seeds
    {
        let long_units = tu_verif::enumerate::threshold_lengths(run.pick(8, 10)).len();
        let many_units = tu_verif::enumerate::threshold_lengths(run.pick(6, 8)).len();
        let small: Vec<Vec<usize>> = sequences(run.pick(4, 5), 3).into_iter().filter(|v| !v.is_empty()).collect();
        run.bounds.insert("under_reporting_sources_phase".into(), json!(format!("{} length vectors (1..=3 sources of 0..={} items; a source of n >= 2 items announces n / 2) x every strategy x seeds {{0, 1}}", small.len(), run.pick(3, 4))));
        if run.unit((nunits + long_units + many_units + ERR_PATTERNS.len()) as u64) {
            UNDER_REPORT.store(1, std::sync::atomic::Ordering::Relaxed);
            for lens in &small {
                for strategy in 0..STRATEGIES.len() {
                    for seed in [0u64, 1] {
                        check(&mut run, lens, strategy, seed);
                    }
                }
            }
            UNDER_REPORT.store(0, std::sync::atomic::Ordering::Relaxed);
        }
    }
    let mut orders: Vec<Vec<usize>> = vec![];
    for unit in 0..nunits {
        let (lens, strategy) = (&vectors[unit / STRATEGIES.len()], unit % STRATEGIES.len());
        if !run.unit(unit as u64) {
            continue;
        }
        if run.out_of_time() {
            break;
        }
        orders.clear();
        let mut complete = true;
        for seed in 0..SEEDS {
            match check(&mut run, lens, strategy, seed) {
                Some(tags) => {
                    if !orders.contains(&tags) {
                        orders.push(tags);
                    }
                }
                None => complete = false,
            }
        }
        run.count(&format!("units strategy={}", STRATEGIES[strategy].1));
        // how many different orders the seed set produced (shows that the seed set is not vacuous)
        if complete && STRATEGIES[strategy].0 == GenerationStrategy::Weighted {
            let nonempty = lens.iter().filter(|l| **l > 0).count();
            run.count(&format!("weighted, {nonempty} non-empty sources: distinct source orders over {SEEDS} seeds = {}", orders.len()));
        }
    }
    run.finish();
}
