//! C18 — word matching is a longest common subsequence; edited words are its complement.
//! Engine A (DESIGN 5/C18): all ordered pairs of word sequences over {a, b, A, c} up to a length
//! bound (repeated words, the empty text, case variants) x 5 x 5 ways of writing the two sequences
//! as texts (single spaces, doubled spaces, a leading space, a trailing space, mixed ASCII
//! whitespace with leading and trailing runs) x ignore_case, each run through the real
//! `text::match_words` and (ignore_case = false) `edit::edited_words` and compared with the textbook
//! LCS length `refs::lcs_len` on the word sequences.
//!
//! Oracle, clause by clause from the statement:
//!  * match_words returns (a panic is a violation of `returns`);
//!  * the two reported counts are the numbers of whitespace-separated words of the two texts;
//!  * every index pair lies inside the two word sequences, the pairs are strictly increasing in both
//!    coordinates, and the two words of a pair are equal (after lower-casing both when ignore_case);
//!  * the number of pairs equals the LCS length of the two word sequences (lower-cased when
//!    ignore_case) — together with the previous clause: the matching IS a longest common subsequence;
//!  * edited_words(a, b) == (indices of a, indices of b) that do not occur in the pairs returned by
//!    match_words(a, b, false) for the same texts ("that matching": edited_words has no case flag),
//!    and — independently of what match_words returned — the two sets have |a| - LCS and |b| - LCS
//!    elements and lie inside the word sequences.
//!
//! Readings taken (DESIGN 6, the one under which fewer behaviours are violations):
//!  * "whitespace-separated": the code splits on ASCII whitespace, the statement does not say which
//!    whitespace.  Only texts whose whitespace characters are all ASCII whitespace (space, \t, \n,
//!    \r, form feed) are in the domain — there both readings give the same words.  The predicate is
//!    enforced, not assumed from the construction: asserted for every generated text before the
//!    enumeration starts (together with "the text spells its word sequence"), evaluated per case on
//!    replay.
//!  * which of several longest common subsequences is returned is not judged.
//!  * "case-insensitively" is `str::to_lowercase` on both words; the enumerated words are ASCII, where
//!    every notion of case folding agrees.
use serde_json::{json, Value};
use std::collections::HashSet;
use text_utils::edit::edited_words;
use text_utils::text::match_words;
use tu_verif::enumerate::sequences;
use tu_verif::guard::catch;
use tu_verif::refs;
use tu_verif::run::Run;

const WORDS: [&str; 4] = ["a", "b", "A", "c"];
const FORMATS: [&str; 5] = ["single-spaces", "doubled-spaces", "leading-space", "trailing-space", "mixed-ascii-whitespace"];

fn write_text(seq: &[usize], format: usize) -> String {
    let w: Vec<&str> = seq.iter().map(|i| WORDS[*i]).collect();
    match format {
        0 => w.join(" "),
        1 => w.join("  "),
        2 => format!(" {}", w.join(" ")),
        3 => format!("{} ", w.join(" ")),
        4 => format!("\n{}\r\n", w.join("\t ")),
        _ => unreachable!("harness: no such format"),
    }
}

/// all whitespace of the text is ASCII whitespace (so "whitespace-separated" has one meaning)
fn in_domain(s: &str) -> bool {
    s.chars().all(|c| !c.is_whitespace() || c.is_ascii_whitespace())
}

fn case_json(a: &str, b: &str, ic: bool) -> Value {
    json!({"a": a, "b": b, "ignore_case": ic})
}

fn complement(len: usize, matched: impl Iterator<Item = usize>) -> HashSet<usize> {
    let m: HashSet<usize> = matched.collect();
    (0..len).filter(|i| !m.contains(i)).collect()
}

fn sorted(s: &HashSet<usize>) -> Vec<usize> {
    let mut v: Vec<usize> = s.iter().copied().collect();
    v.sort();
    v
}

/// What the harness knows about a pair of word sequences: the words, their case-folded forms (when
/// requested) and the textbook LCS length.
struct Reference {
    aw: Vec<String>,
    bw: Vec<String>,
    af: Vec<String>,
    bf: Vec<String>,
    lcs: usize,
    nontrivial: bool,
}

fn reference(aw: &[&str], bw: &[&str], ic: bool) -> Reference {
    let fold = |w: &&str| if ic { w.to_lowercase() } else { w.to_string() };
    let af: Vec<String> = aw.iter().map(fold).collect();
    let bf: Vec<String> = bw.iter().map(fold).collect();
    let lcs = refs::lcs_len(&af, &bf);
    let nontrivial = !aw.is_empty() && !bw.is_empty() && lcs > 0 && af != bf;
    Reference { aw: aw.iter().map(|w| w.to_string()).collect(), bw: bw.iter().map(|w| w.to_string()).collect(), af, bf, lcs, nontrivial }
}

/// one case given as texts only (replay): enforces the domain and derives the words itself
fn check_texts(run: &mut Run, a: &str, b: &str, ic: bool) {
    if !(in_domain(a) && in_domain(b)) {
        if !ic {
            check_consistency(run, a, b);
        }
        return;
    }
    let aw: Vec<&str> = a.split_whitespace().collect();
    let bw: Vec<&str> = b.split_whitespace().collect();
    check(run, a, b, ic, &reference(&aw, &bw, ic));
}

/// Texts with whitespace characters that are not ASCII whitespace: what a "whitespace-separated word"
/// is there is not settled by the statement (the word counts are not judged), but the last sentence
/// is: edited_words must be the complement of the matching match_words reports, relative to the word
/// counts match_words reports, and the pairs must be strictly increasing and inside those counts.
fn check_consistency(run: &mut Run, a: &str, b: &str) {
    run.evaluations += 1;
    run.nontrivial += 1;
    let case = || case_json(a, b, false);
    run.sample(case);
    run.calls += 2;
    let (pairs, la, lb) = match catch(|| match_words(a, b, false)) {
        Err(p) => {
            run.violation("returns", "", case(), format!("match_words panicked: {p}"));
            return;
        }
        Ok(x) => x,
    };
    if !pairs.iter().all(|(i, j)| *i < la && *j < lb) {
        run.violation("indices-in-range", "", case(), format!("pairs {pairs:?} for reported word counts ({la}, {lb})"));
        return;
    }
    if !pairs.windows(2).all(|w| w[0].0 < w[1].0 && w[0].1 < w[1].1) {
        run.violation("strictly-increasing", "", case(), format!("pairs {pairs:?}"));
    }
    match catch(|| edited_words(a, b)) {
        Err(p) => run.violation("returns", "", case(), format!("edited_words panicked: {p}")),
        Ok((ea, eb)) => {
            run.compared += 1;
            let xa = complement(la, pairs.iter().map(|p| p.0));
            let xb = complement(lb, pairs.iter().map(|p| p.1));
            if ea != xa || eb != xb {
                run.violation(
                    "edited-words-are-complement-of-matching",
                    "",
                    case(),
                    format!("edited_words = ({:?}, {:?}), match_words(a, b, false) = {pairs:?} with word counts ({la}, {lb}) leaves ({:?}, {:?}) unmatched", sorted(&ea), sorted(&eb), sorted(&xa), sorted(&xb)),
                );
            }
        }
    }
}

/// one case: texts `a`, `b` whose whitespace-separated words are `r.aw`, `r.bw`
fn check(run: &mut Run, a: &str, b: &str, ic: bool, r: &Reference) {
    run.evaluations += 1;
    run.sample(|| case_json(a, b, ic));
    let case = || case_json(a, b, ic);
    let Reference { aw, bw, af, bf, lcs, .. } = r;
    let lcs = *lcs;
    if r.nontrivial {
        run.nontrivial += 1;
    }
    // match_words
    run.calls += 1;
    let matching = match catch(|| match_words(a, b, ic)) {
        Err(p) => {
            run.violation("returns", "", case(), format!("match_words panicked: {p}"));
            None
        }
        Ok((pairs, la, lb)) => {
            run.compared += 1;
            run.outcome(&pairs);
            if (la, lb) != (aw.len(), bw.len()) {
                run.violation("word-counts", "", case(), format!("reported word counts ({la}, {lb}), the texts have ({}, {}) whitespace-separated words", aw.len(), bw.len()));
            }
            let in_range = pairs.iter().all(|(i, j)| *i < aw.len() && *j < bw.len());
            if !in_range {
                run.violation("indices-in-range", "", case(), format!("pairs {pairs:?} for texts of ({}, {}) words", aw.len(), bw.len()));
            } else if let Some((i, j)) = pairs.iter().find(|(i, j)| af[*i] != bf[*j]) {
                run.violation("matched-words-equal", "", case(), format!("pairs {pairs:?}: word {i} of a is {:?}, word {j} of b is {:?}", aw[*i], bw[*j]));
            }
            if !pairs.windows(2).all(|w| w[0].0 < w[1].0 && w[0].1 < w[1].1) {
                run.violation("strictly-increasing", "", case(), format!("pairs {pairs:?}"));
            }
            if pairs.len() != lcs {
                run.violation("count-equals-lcs", "", case(), format!("{} pairs {pairs:?}, a longest common subsequence of the word sequences has {lcs} words", pairs.len()));
            }
            Some(pairs)
        }
    };
    // edited_words has no case flag: it belongs to the ignore_case = false matching
    if ic {
        return;
    }
    run.calls += 1;
    match catch(|| edited_words(a, b)) {
        Err(p) => run.violation("returns", "", case(), format!("edited_words panicked: {p}")),
        Ok((ea, eb)) => {
            run.compared += 1;
            if let Some(pairs) = &matching {
                let xa = complement(aw.len(), pairs.iter().map(|p| p.0));
                let xb = complement(bw.len(), pairs.iter().map(|p| p.1));
                if ea != xa || eb != xb {
                    run.violation(
                        "edited-words-are-complement-of-matching",
                        "",
                        case(),
                        format!("edited_words = ({:?}, {:?}), match_words(a, b, false) = {pairs:?} leaves ({:?}, {:?}) unmatched", sorted(&ea), sorted(&eb), sorted(&xa), sorted(&xb)),
                    );
                }
            }
            let inside = ea.iter().all(|i| *i < aw.len()) && eb.iter().all(|j| *j < bw.len());
            if !inside || ea.len() != aw.len() - lcs || eb.len() != bw.len() - lcs {
                run.violation(
                    "edited-words-sizes-are-len-minus-lcs",
                    "",
                    case(),
                    format!("edited_words = ({:?}, {:?}) for texts of ({}, {}) words with LCS {lcs}: expected {} and {} indices inside the texts", sorted(&ea), sorted(&eb), aw.len(), bw.len(), aw.len() - lcs, bw.len() - lcs),
                );
            }
        }
    }
}

fn main() {
    let mut run = Run::from_env("C18");
    if let Some(c) = run.replay_case() {
        check_texts(&mut run, c["a"].as_str().unwrap(), c["b"].as_str().unwrap(), c["ignore_case"].as_bool().unwrap());
        run.finish();
    }
    let max_words = run.pick(4, 5);
    let seqs = sequences(WORDS.len(), max_words);
    if let Some(n) = run.describe_unit() {
        if n as usize >= seqs.len() {
            println!("{}", json!({"multi_letter_phase_unit": n as usize - seqs.len()}));
            return;
        }
        let words: Vec<&str> = seqs[n as usize].iter().map(|i| WORDS[*i]).collect();
        println!("{}", json!({"a_words": words, "b": format!("every sequence of at most {max_words} words over {WORDS:?}"), "texts": FORMATS, "ignore_case": [false, true]}));
        return;
    }
    // every sequence written in every format
    let texts: Vec<Vec<String>> = seqs.iter().map(|s| (0..FORMATS.len()).map(|f| write_text(s, f)).collect()).collect();
    let words: Vec<Vec<&str>> = seqs.iter().map(|s| s.iter().map(|i| WORDS[*i]).collect()).collect();
    for (w, ts) in words.iter().zip(&texts) {
        for t in ts {
            // the enumeration hands the word sequence to the oracle instead of re-splitting every text
            assert!(in_domain(t), "harness: text {t:?} is outside the domain");
            assert_eq!(&t.split_whitespace().collect::<Vec<_>>(), w, "harness: text {t:?} does not spell its word sequence");
        }
    }
    run.bounds.insert("words".into(), json!(WORDS));
    run.bounds.insert("max_words_per_text".into(), json!(max_words));
    run.bounds.insert("word_sequences".into(), json!(seqs.len()));
    run.bounds.insert("text_formats".into(), json!(FORMATS));
    run.bounds.insert("ignore_case".into(), json!([false, true]));
    run.extra.insert(
        "rule".into(),
        json!("every ordered pair (a, b) of word sequences over the word alphabet up to the length bound (shortlex; one unit per a) x every pair of text formats x ignore_case, enumerated exhaustively; edited_words is checked in the ignore_case = false cases. A case is non-trivial when both texts have words, their LCS is positive and the (case-folded when requested) word sequences differ"),
    );
    run.assumptions.push("only ASCII whitespace separates words (predicate enforced per case): there the code's ASCII split and a Unicode whitespace split agree".into());
    run.assumptions.push("case-insensitive word equality is str::to_lowercase on both words (phase 3 uses non-ASCII letters whose case variants differ in byte length)".into());
    // phase 2: words of more than one letter that share prefixes, suffixes and differ in case only in
    // the middle (word equality must compare whole words); single-space layout, via the
    // self-contained per-text check
    // phase 3: non-ASCII words whose case variants have different UTF-8 lengths (capital sharp s,
    // Kelvin sign) next to ordinary ones
    let w3 = ["\u{1e9e}", "ß", "\u{212a}", "k", "Ä", "ä"];
    let seqs3 = sequences(w3.len(), run.pick(3, 4));
    let texts3: Vec<String> = seqs3.iter().map(|s| s.iter().map(|i| w3[*i]).collect::<Vec<_>>().join(" ")).collect();
    run.bounds.insert("non_ascii_case_phase".into(), json!(format!("all ordered pairs of the {} word sequences over {w3:?} x ignore_case, single-space layout", seqs3.len())));
    let base3 = texts.len() + sequences(6, run.pick(3, 4)).len();
    for (ia, a) in texts3.iter().enumerate() {
        if !run.unit((base3 + ia) as u64) {
            continue;
        }
        for b in &texts3 {
            for ic in [false, true] {
                check_texts(&mut run, a, b, ic);
            }
        }
    }
    // phase 4: a case mapping that depends on context -- a capital sigma at the end of a word
    // lower-cases to the final form, elsewhere (and alone) to the ordinary one
    let w4 = ["ΟΣ", "ος", "οσ", "Σ", "σ", "ς"];
    let seqs4 = sequences(w4.len(), run.pick(3, 4));
    let texts4: Vec<String> = seqs4.iter().map(|s| s.iter().map(|i| w4[*i]).collect::<Vec<_>>().join(" ")).collect();
    run.bounds.insert("context_sensitive_case_phase".into(), json!(format!("all ordered pairs of the {} word sequences over {w4:?} x ignore_case, single-space layout", seqs4.len())));
    let base4 = base3 + seqs3.len();
    for (ia, a) in texts4.iter().enumerate() {
        if !run.unit((base4 + ia) as u64) {
            continue;
        }
        for b in &texts4 {
            for ic in [false, true] {
                check_texts(&mut run, a, b, ic);
            }
        }
    }
    // phase 5: long word sequences (lengths around powers of two): a is a repeated word pattern, b is
    // a with one word replaced / removed / inserted at the start, in the middle or at the end, or the
    // pattern shifted by one
    {
        let lens = tu_verif::enumerate::threshold_lengths(run.pick(8, 10));
        let pats: [&[&str]; 3] = [&["a", "b"], &["a", "A", "c"], &["ab", "a", "b", "Ab"]];
        run.bounds.insert("long_phase".into(), json!(format!("word counts {lens:?} x 3 repeated word patterns x 11 variants of the second text x ignore_case, single-space layout")));
        let base5 = base4 + seqs4.len();
        let mut unit5 = base5;
        for n in lens {
            for pat in pats {
                unit5 += 1;
                if !run.unit((unit5 - 1) as u64) {
                    continue;
                }
                let words: Vec<&str> = (0..n).map(|i| pat[i % pat.len()]).collect();
                let a = words.join(" ");
                let mut bs: Vec<String> = vec![a.clone(), (1..=n).map(|i| pat[i % pat.len()]).collect::<Vec<_>>().join(" ")];
                for pos in [0, n / 2, n - 1] {
                    let mut r = words.clone();
                    r[pos] = "x";
                    bs.push(r.join(" "));
                    let mut d = words.clone();
                    d.remove(pos);
                    bs.push(d.join(" "));
                    let mut i = words.clone();
                    i.insert(pos, "x");
                    bs.push(i.join(" "));
                }
                for b in &bs {
                    for ic in [false, true] {
                        check_texts(&mut run, &a, b, ic);
                        check_texts(&mut run, b, &a, ic);
                    }
                }
            }
        }
    }
    // phase 6: whitespace characters that are not ASCII whitespace (NBSP, VT, ideographic space), as
    // separators, inside words and as whole texts: the consistency clauses only (check_consistency)
    {
        let t6 = tu_verif::enumerate::strings(&["a", "b", " ", "\u{a0}", "\u{b}", "\u{3000}"], run.pick(3, 4));
        run.bounds.insert("non_ascii_whitespace_phase".into(), json!(format!("all ordered pairs of the {} texts over [a, b, space, NBSP, VT, U+3000] (consistency of edited_words with match_words; word counts not judged)", t6.len())));
        let base6 = base4 + seqs4.len() + 3 * tu_verif::enumerate::threshold_lengths(run.pick(8, 10)).len();
        for (ia, a) in t6.iter().enumerate() {
            if !run.unit((base6 + ia) as u64) {
                continue;
            }
            for b in &t6 {
                check_texts(&mut run, a, b, false);
            }
        }
    }
    let w2 = ["a", "ab", "aB", "b", "bab", "ba"];
    let seqs2 = sequences(w2.len(), run.pick(3, 4));
    let texts2: Vec<String> = seqs2.iter().map(|s| s.iter().map(|i| w2[*i]).collect::<Vec<_>>().join(" ")).collect();
    run.bounds.insert("multi_letter_phase".into(), json!(format!("all ordered pairs of the {} word sequences over {w2:?} x ignore_case, single-space layout", seqs2.len())));
    for (ia, a) in texts2.iter().enumerate() {
        if !run.unit((texts.len() + ia) as u64) {
            continue;
        }
        for b in &texts2 {
            for ic in [false, true] {
                check_texts(&mut run, a, b, ic);
            }
        }
    }
    for (ia, ta) in texts.iter().enumerate() {
        if !run.unit(ia as u64) {
            continue;
        }
        if run.out_of_time() {
            break;
        }
        let mut lcs_hist = [0u64; 8];
        for (ib, tb) in texts.iter().enumerate() {
            for ic in [false, true] {
                let r = reference(&words[ia], &words[ib], ic);
                lcs_hist[r.lcs.min(7)] += (ta.len() * tb.len()) as u64;
                for a in ta {
                    for b in tb {
                        check(&mut run, a, b, ic, &r);
                    }
                }
            }
        }
        for (l, n) in lcs_hist.iter().enumerate().filter(|(_, n)| **n > 0) {
            run.count_n(&format!("lcs={l}"), *n);
        }
    }
    run.finish();
}
