//! C12 — edit distance equals the reference metric and operations() is a minimal script.
//! Engine A: all pairs of strings over a small colliding alphabet x all flag combinations, each
//! compared with an independent shortest-path reference (DESIGN 5/C12).
use serde_json::{json, Value};
use text_utils::edit::{self, EditOperation};
use tu_verif::enumerate::strings;
use tu_verif::guard::catch;
use tu_verif::refs;
use tu_verif::run::Run;

const ALPHA: [&str; 5] = ["a", "b", " ", "ä", "e\u{301}"];

fn case_json(a: &str, b: &str, g: bool, swap: bool, sido: bool) -> Value {
    json!({"a": a, "b": b, "use_graphemes": g, "with_swap": swap, "spaces_insert_delete_only": sido})
}

/// applies an edit script (as returned by `edit::operations`) to the characters of `a`
fn apply(a: &[&str], b: &[&str], ops: &[(EditOperation, usize, usize)]) -> Result<Vec<String>, String> {
    let mut out: Vec<String> = vec![];
    let mut ia = 0usize;
    for (op, i, j) in ops {
        if *i < ia {
            return Err(format!("operation {op:?} at source index {i} comes after index {ia} was consumed"));
        }
        if *i > a.len() {
            return Err(format!("source index {i} out of range"));
        }
        out.extend(a[ia..*i].iter().map(|s| s.to_string()));
        ia = *i;
        match op {
            EditOperation::Insert => {
                out.push(b.get(*j).ok_or_else(|| format!("target index {j} out of range"))?.to_string());
            }
            EditOperation::Delete => {
                if *i >= a.len() {
                    return Err(format!("delete at {i} out of range"));
                }
                ia = i + 1;
            }
            EditOperation::Replace => {
                if *i >= a.len() {
                    return Err(format!("replace at {i} out of range"));
                }
                out.push(b.get(*j).ok_or_else(|| format!("target index {j} out of range"))?.to_string());
                ia = i + 1;
            }
            EditOperation::Swap => {
                if i + 1 >= a.len() {
                    return Err(format!("swap at {i} out of range"));
                }
                out.push(a[i + 1].to_string());
                out.push(a[*i].to_string());
                ia = i + 2;
            }
        }
    }
    out.extend(a[ia..].iter().map(|s| s.to_string()));
    Ok(out)
}

fn check(run: &mut Run, a: &str, b: &str, g: bool, swap: bool, sido: bool) {
    run.evaluations += 1;
    let ac = refs::chars(a, g);
    let bc = refs::chars(b, g);
    let table = refs::edit_table(&ac, &bc, swap, sido);
    let r = table[ac.len()][bc.len()];
    if r > 0 && !ac.is_empty() && !bc.is_empty() {
        run.nontrivial += 1;
    }
    run.count(&format!("distance={r}"));
    run.sample(|| case_json(a, b, g, swap, sido));
    let case = || case_json(a, b, g, swap, sido);
    // distance
    run.calls += 1;
    match catch(|| edit::distance(a, b, g, swap, sido, false)) {
        Err(p) => run.violation("no-panic", "", case(), format!("distance panicked: {p}")),
        Ok(d) => {
            run.compared += 1;
            if d != r as f64 {
                run.violation("distance-equals-reference", "", case(), format!("distance = {d}, reference = {r}"));
            }
        }
    }
    // normalised distance
    run.calls += 1;
    match catch(|| edit::distance(a, b, g, swap, sido, true)) {
        Err(p) => run.violation("no-panic", "", case(), format!("normalized distance panicked: {p}")),
        Ok(d) => {
            run.compared += 1;
            let longer = ac.len().max(bc.len());
            let expect = if longer == 0 { 0.0 } else { r as f64 / longer as f64 };
            if !(d.is_finite() && (0.0..=1.0).contains(&d)) {
                // class D10: under spaces_insert_delete_only the (reference) distance itself exceeds the
                // longer length, so "divide by the longer length" and "lies in [0,1]" cannot both hold
                let class = if sido && r > longer && d == r as f64 / longer as f64 { "D10-sido-distance-exceeds-longer-length" } else { "" };
                run.violation("normalized-in-unit-interval", class, case(), format!("normalized distance = {d} (reference distance {r}, longer length {longer})"));
            } else if (d - expect).abs() > 1e-12 {
                run.violation("normalized-equals-reference", "", case(), format!("normalized distance = {d}, reference = {expect}"));
            }
        }
    }
    // prefix distance
    run.calls += 1;
    match catch(|| edit::prefix_distance(a, b, g, swap, sido, false)) {
        Err(p) => run.violation("no-panic", "", case(), format!("prefix_distance panicked: {p}")),
        Ok(d) => {
            run.compared += 1;
            let expect = *table[ac.len()].iter().min().unwrap();
            if d != expect as f64 {
                run.violation("prefix-distance-is-min-over-prefixes", "", case(), format!("prefix_distance = {d}, min over prefixes of b = {expect}"));
            }
        }
    }
    // operations
    run.calls += 1;
    match catch(|| edit::operations(a, b, g, swap, sido)) {
        Err(p) => run.violation("no-panic", "", case(), format!("operations panicked: {p}")),
        Ok(ops) => {
            run.compared += 1;
            if ops.len() != r {
                run.violation("script-length-equals-distance", "", case(), format!("script {ops:?} has length {}, distance is {r}", ops.len()));
            }
            if ops.windows(2).any(|w| w[0].1 > w[1].1 || w[0].2 > w[1].2) {
                run.violation("script-sorted-by-position", "", case(), format!("script {ops:?}"));
            }
            match apply(&ac, &bc, &ops) {
                Err(e) => run.violation("script-yields-b", "", case(), format!("script {ops:?} cannot be applied: {e}")),
                Ok(out) => {
                    if out.concat() != b {
                        run.violation("script-yields-b", "", case(), format!("script {ops:?} turns a into {:?}", out.concat()));
                    }
                }
            }
        }
    }
}

fn main() {
    let mut run = Run::from_env("C12");
    if let Some(c) = run.replay_case() {
        check(
            &mut run,
            c["a"].as_str().unwrap(),
            c["b"].as_str().unwrap(),
            c["use_graphemes"].as_bool().unwrap(),
            c["with_swap"].as_bool().unwrap(),
            c["spaces_insert_delete_only"].as_bool().unwrap(),
        );
        run.finish();
    }
    let max_len = run.pick(4, 5);
    let all = strings(&ALPHA, max_len);
    if let Some(n) = run.describe_unit() {
        if n as usize >= all.len() {
            println!("{}", json!({"whitespace_phase_unit": n as usize - all.len()}));
            return;
        }
        println!("{}", json!({"a": all[n as usize], "b": format!("every string over {ALPHA:?} with at most {max_len} symbols"), "flags": "all 8 combinations"}));
        return;
    }
    run.bounds.insert("alphabet".into(), json!(ALPHA));
    run.bounds.insert("max_symbols_per_string".into(), json!(max_len));
    run.bounds.insert("strings".into(), json!(all.len()));
    run.bounds.insert("flags".into(), json!("use_graphemes x with_swap x spaces_insert_delete_only x normalized"));
    run.extra.insert(
        "rule".into(),
        json!("every ordered pair (a, b) of strings over the alphabet up to the length bound x every flag combination, enumerated exhaustively in shortlex order; a case is non-trivial when both strings are non-empty and their reference distance is positive"),
    );
    // phase 2: every kind of White_Space where phase 1 only has U+0020 — pairs over {a, b, W} with W
    // instantiated by tab, NBSP, ideographic space and line separator (the flag
    // spaces_insert_delete_only speaks about whitespace, not about the space character)
    let ws_all = strings(&["a", "b", "W"], run.pick(3, 4));
    let ws_chars = ["\t", "\u{a0}", "\u{3000}", "\u{2028}"];
    run.bounds.insert("whitespace_phase".into(), json!(format!("all pairs of the {} strings over [a, b, W] x W in {ws_chars:?} x all flags", ws_all.len())));
    for (iw, w) in ws_chars.iter().enumerate() {
        for (ia, a) in ws_all.iter().enumerate() {
            if !run.unit((all.len() + iw * ws_all.len() + ia) as u64) {
                continue;
            }
            let a = a.replace('W', w);
            for b in &ws_all {
                let b = b.replace('W', w);
                for flags in 0..8u32 {
                    check(&mut run, &a, &b, flags & 1 != 0, flags & 2 != 0, flags & 4 != 0);
                }
            }
        }
    }
    // phase 3: two DIFFERENT whitespace characters facing each other (whitespace may not be
    // substituted by other whitespace either): pairs over {a, X, Y} with (X, Y) every ordered pair of
    // distinct characters from space, tab, NBSP, U+3000 and the all-whitespace cluster CR LF
    let xy_all = strings(&["a", "X", "Y"], run.pick(3, 4));
    let xy_chars = [" ", "\t", "\u{a0}", "\u{3000}", "\r\n"];
    let base3 = all.len() + ws_chars.len() * ws_all.len();
    run.bounds.insert("distinct_whitespace_phase".into(), json!(format!("all pairs of the {} strings over [a, X, Y] x (X, Y) every ordered pair of distinct members of {xy_chars:?} x all flags", xy_all.len())));
    let mut unit3 = base3;
    for x in xy_chars {
        for y in xy_chars {
            if x == y {
                continue;
            }
            for a in &xy_all {
                unit3 += 1;
                if !run.unit((unit3 - 1) as u64) {
                    continue;
                }
                let a = a.replace('X', x).replace('Y', y);
                for b in &xy_all {
                    let b = b.replace('X', x).replace('Y', y);
                    for flags in 0..8u32 {
                        check(&mut run, &a, &b, flags & 1 != 0, flags & 2 != 0, flags & 4 != 0);
                    }
                }
            }
        }
    }
    // phase 5: clusters next to their own proper prefixes -- a base letter with and without its
    // combining mark, CR LF next to a lone CR and a lone LF: two strings can share a code-point prefix
    // that ends inside a cluster of one of them
    {
        let pre_all = strings(&["e", "\u{301}", "x", "\r", "\n", "\u{915}", "\u{93f}"], run.pick(3, 4));
        run.bounds.insert("cluster_prefix_phase".into(), json!(format!("all pairs of the {} strings over [e, U+0301, x, CR, LF, U+0915, U+093F (a spacing mark: one cluster with its base only under the extended rules)] x all flags", pre_all.len())));
        let base5 = base3 + xy_chars.len() * (xy_chars.len() - 1) * xy_all.len() + 3 * tu_verif::enumerate::threshold_lengths(run.pick(8, 10)).len();
        for (ia, a) in pre_all.iter().enumerate() {
            if !run.unit((base5 + ia) as u64) {
                continue;
            }
            for b in &pre_all {
                for flags in 0..8u32 {
                    check(&mut run, a, b, flags & 1 != 0, flags & 2 != 0, flags & 4 != 0);
                }
            }
        }
    }
    // phase 4: long strings -- lengths around the powers of two a size threshold would sit at (a
    // fast path for short strings, a chunked table); a is a repeated pattern, b is a with one
    // disturbance at the start, in the middle or at the end, or another long string
    {
        let lens = tu_verif::enumerate::threshold_lengths(run.pick(8, 10));
        let patterns: [&[&str]; 3] = [&["a", "b"], &["a", " ", "ä"], &["e\u{301}", "a"]];
        run.bounds.insert("long_phase".into(), json!(format!("lengths {lens:?} x 3 repeated patterns x (equal, one symbol replaced / deleted / inserted at start, middle, end, the pattern shifted by one; every ordered pair of 6 short texts around one grapheme cluster of that many code points) x all flags")));
        let mut unit4 = base3 + xy_chars.len() * (xy_chars.len() - 1) * xy_all.len();
        for n in lens {
            for pat in patterns {
                unit4 += 1;
                if !run.unit((unit4 - 1) as u64) {
                    continue;
                }
                let syms: Vec<&str> = (0..n).map(|i| pat[i % pat.len()]).collect();
                let a: String = syms.concat();
                let mut bs: Vec<String> = vec![a.clone(), (1..=n).map(|i| pat[i % pat.len()]).collect()];
                if pat.len() == 2 && pat[0] == "a" {
                    // (with the first pattern also: one grapheme cluster of n code points inside short texts)
                    let w = format!("a{}", "\u{301}".repeat(n - 1));
                    let giants = [format!("x{w}y"), format!("x{w}\u{301}y"), "xy".to_string(), w.clone(), format!("{w}{w}"), format!("x {w}")];
                    for ga in &giants {
                        for gb in &giants {
                            for flags in 0..8u32 {
                                check(&mut run, ga, gb, flags & 1 != 0, flags & 2 != 0, flags & 4 != 0);
                                run.tick(); // quadratic tables
                            }
                        }
                    }
                }
                for pos in [0, n / 2, n - 1] {
                    let mut r = syms.clone();
                    r[pos] = "x";
                    bs.push(r.concat());
                    let mut d = syms.clone();
                    d.remove(pos);
                    bs.push(d.concat());
                    let mut i = syms.clone();
                    i.insert(pos, "x");
                    bs.push(i.concat());
                }
                for b in &bs {
                    for flags in 0..8u32 {
                        check(&mut run, &a, b, flags & 1 != 0, flags & 2 != 0, flags & 4 != 0);
                        check(&mut run, b, &a, flags & 1 != 0, flags & 2 != 0, flags & 4 != 0);
                        run.tick(); // quadratic tables: a pair of 1025-symbol strings takes a while
                    }
                }
            }
        }
    }
    for (ia, a) in all.iter().enumerate() {
        if !run.unit(ia as u64) {
            continue;
        }
        if run.out_of_time() {
            break;
        }
        for b in &all {
            for flags in 0..8u32 {
                check(&mut run, a, b, flags & 1 != 0, flags & 2 != 0, flags & 4 != 0);
            }
        }
        // the batch variant agrees with the single-pair function
        let av: Vec<&str> = all.iter().map(|_| a.as_str()).collect();
        run.calls += 1;
        match catch(|| edit::distances(&av, &all, true, true, false, false)) {
            Ok(Ok(ds)) => {
                for (b, d) in all.iter().zip(ds) {
                    let r = refs::edit_distance(&refs::chars(a, true), &refs::chars(b, true), true, false);
                    if d != r as f64 {
                        run.violation("distances-batch-equals-reference", "", case_json(a, b, true, true, false), format!("distances gave {d}, reference {r}"));
                    }
                }
            }
            Ok(Err(e)) => run.violation("distances-batch-equals-reference", "", json!({"a": a}), format!("distances returned an error for equally long lists: {e}")),
            Err(p) => run.violation("no-panic", "", json!({"a": a}), format!("distances panicked: {p}")),
        }
    }
    run.finish();
}
