//! C15 — spelling corruption (`corrupt::edit_word`) makes one bounded edit and never touches
//! protected positions.
//! Engine A with owned randomness (DESIGN 3.3, first seam): `edit_word` takes its random source as a
//! parameter, so the harness passes a scripted `RngCore` and explores ALL random streams by a
//! depth-first search over scripts: a script is extended by one position (all grid values) as long
//! as the call consumed more words than the script holds (`Script::draws`). The grid has
//! max(4, characters + 1) cells, at least as many as any single draw has alternatives (<= 4 kinds,
//! <= characters + 1 positions, <= 3 edit strings), whatever the order of the draws. Chains of edits thread the returned exclusion
//! set back in exactly as `corrupt_spelling` does.
//! The oracle is the reference set of allowed results written from the statement (DESIGN 5/C15).
use serde_json::{json, Value};
use std::borrow::Cow;
use std::collections::{BTreeSet, HashMap, HashSet};
use text_utils::corrupt::{edit_word, DeleteEdits, EditsAndWeights, GetEdits, InsertContext, InsertEdits, ReplaceContext, ReplaceEdits, SwapEdits};
use text_utils::unicode::CharString;
use tu_verif::enumerate::strings;
use tu_verif::guard::catch;
use tu_verif::refs;
use tu_verif::run::Run;
use tu_verif::srng::{self, Script};

const ALPHA: [&str; 4] = ["a", "b", "ä", "e\u{301}"];
/// characters that can occur as context in the tables (both modes: the cluster and its code points)
const CTX_CHARS: [&str; 6] = ["a", "b", "ä", "e", "\u{301}", "e\u{301}"];
const KIND_NAMES: [&str; 4] = ["insert", "delete", "replace", "swap"];
const PROVIDERS: [&str; 3] = ["context-full", "context-edge", "mock-always"];
const D6: &str = "D6-idx-minus-one-underflow";
/// a script is never extended beyond this many positions (the subject makes at most 3 draws)
const MAX_DRAWS: usize = 6;

// ------------------------------------------------------------------------------------------------
// providers: the edit tables handed to the subject, and what they mean (reference side)
// ------------------------------------------------------------------------------------------------

/// Insertion strings the table offers between `prev` and `next` (None = word boundary).
/// context-full: every context over CTX_CHARS and the boundaries; at the word start only "x", at
/// the word end only "ye\u{301}" (a multi-character insertion), otherwise both — so a provider that
/// confuses the boundary contexts yields a string that is not allowed there.
/// context-edge: only the contexts that involve a word boundary.
fn insert_strings(provider: usize, prev: Option<&str>, next: Option<&str>) -> Option<&'static [&'static str]> {
    if provider == 2 {
        return Some(&["x", "ye\u{301}"]);
    }
    let known = |c: Option<&str>| c.map(|c| CTX_CHARS.contains(&c)).unwrap_or(true);
    if !known(prev) || !known(next) {
        return None;
    }
    match (prev, next) {
        (None, None) => Some(&["x", "ye\u{301}"]),
        (None, Some(_)) => Some(&["x"]),
        (Some(_), None) => Some(&["ye\u{301}"]),
        (Some(_), Some(_)) if provider == 0 => Some(&["x", "ye\u{301}"]),
        _ => None,
    }
}

/// Replacement strings the table offers for `cur` between `prev` and `next`; includes the EMPTY
/// replacement string.
fn replace_strings(provider: usize, prev: Option<&str>, cur: &str, next: Option<&str>) -> Option<&'static [&'static str]> {
    if provider == 2 {
        return Some(&["x", "", "ye\u{301}"]);
    }
    let known = |c: Option<&str>| c.map(|c| CTX_CHARS.contains(&c)).unwrap_or(true);
    if !known(prev) || !known(next) || !CTX_CHARS.contains(&cur) {
        return None;
    }
    match (prev, next) {
        (None, None) => Some(&["x", "", "ye\u{301}"]),
        (None, Some(_)) => Some(&["x", ""]),
        (Some(_), None) => Some(&["", "ye\u{301}"]),
        (Some(_), Some(_)) if provider == 0 => Some(&["x", "", "ye\u{301}"]),
        _ => None,
    }
}

fn can_delete_some(s: &str) -> bool {
    s != "ä"
}
fn can_delete_all(_: &str) -> bool {
    true
}
fn can_swap_distinct(a: &str, b: &str) -> bool {
    a != b
}
fn can_swap_all(_: &str, _: &str) -> bool {
    true
}
fn can_delete(provider: usize) -> fn(&str) -> bool {
    if provider == 2 {
        can_delete_all
    } else {
        can_delete_some
    }
}
fn can_swap(provider: usize) -> fn(&str, &str) -> bool {
    if provider == 2 {
        can_swap_all
    } else {
        can_swap_distinct
    }
}

fn edits(strs: &[&str]) -> EditsAndWeights {
    (strs.iter().map(|s| s.to_string()).collect(), vec![1.0; strs.len()])
}

/// always-matching provider, like the mock in the repository's own test
struct Always(EditsAndWeights);
impl<'s> GetEdits<'s> for Always {
    fn get_edits<'a: 's>(&'s self, _: &CharString<'a>, _: &usize) -> Option<&'s EditsAndWeights> {
        Some(&self.0)
    }
}

struct Providers {
    ins: [InsertEdits<'static>; 2],
    rep: [ReplaceEdits<'static>; 2],
    ins_mock: Always,
    rep_mock: Always,
}

fn providers() -> Providers {
    let marks: Vec<(&'static str, Option<&'static str>)> =
        [("<bow>", None), ("<eow>", None)].into_iter().chain(CTX_CHARS.iter().map(|c| (*c, Some(*c)))).collect();
    let mut ins: [HashMap<InsertContext<'static>, EditsAndWeights>; 2] = [HashMap::new(), HashMap::new()];
    let mut rep: [HashMap<ReplaceContext<'static>, EditsAndWeights>; 2] = [HashMap::new(), HashMap::new()];
    for provider in 0..2 {
        for (pk, pv) in &marks {
            for (nk, nv) in &marks {
                // <eow> is never a previous and <bow> never a next character
                if *pk == "<eow>" || *nk == "<bow>" {
                    continue;
                }
                if let Some(s) = insert_strings(provider, *pv, *nv) {
                    ins[provider].insert((Cow::Borrowed(*pk), Cow::Borrowed(*nk)), edits(s));
                }
                for c in CTX_CHARS {
                    if let Some(s) = replace_strings(provider, *pv, c, *nv) {
                        rep[provider].insert((Cow::Borrowed(*pk), Cow::Borrowed(c), Cow::Borrowed(*nk)), edits(s));
                    }
                }
            }
        }
    }
    let [i0, i1] = ins;
    let [r0, r1] = rep;
    Providers {
        ins: [InsertEdits { insertions: i0 }, InsertEdits { insertions: i1 }],
        rep: [ReplaceEdits { replacements: r0 }, ReplaceEdits { replacements: r1 }],
        ins_mock: Always(edits(&["x", "ye\u{301}"])),
        rep_mock: Always(edits(&["x", "", "ye\u{301}"])),
    }
}

// ------------------------------------------------------------------------------------------------
// subject call
// ------------------------------------------------------------------------------------------------

#[derive(Clone, PartialEq, Eq, Hash, PartialOrd, Ord, Debug)]
struct State {
    word: String,
    excl: BTreeSet<usize>,
}

#[derive(Clone, Copy)]
struct Config {
    g: bool,
    kinds: u32,
    provider: usize,
    full_delete: bool,
}

#[allow(clippy::too_many_arguments)]
fn call_with<'s, I: GetEdits<'s>, R: GetEdits<'s>>(word: &'s str, cfg: Config, rng: &mut Script, ins: &'s I, rep: &'s R, excl: HashSet<usize>) -> (String, HashSet<usize>) {
    let delete = DeleteEdits { full_delete: cfg.full_delete, can_delete: can_delete(cfg.provider) };
    let swap = SwapEdits { can_swap: can_swap(cfg.provider) };
    edit_word(
        word,
        cfg.g,
        rng,
        if cfg.kinds & 1 != 0 { Some(ins) } else { None },
        if cfg.kinds & 2 != 0 { Some(&delete) } else { None },
        if cfg.kinds & 4 != 0 { Some(rep) } else { None },
        if cfg.kinds & 8 != 0 { Some(&swap) } else { None },
        Some(excl),
    )
}

/// one `edit_word` call under a scripted random stream; returns the result (or the panic message)
/// and the number of random words the call consumed
fn call(p: &Providers, st: &State, cfg: Config, script: &[u64]) -> (Result<State, String>, usize) {
    let mut rng = Script::new(script.to_vec());
    let excl: HashSet<usize> = st.excl.iter().copied().collect();
    let r = catch(|| match cfg.provider {
        2 => call_with(&st.word, cfg, &mut rng, &p.ins_mock, &p.rep_mock, excl),
        k => call_with(&st.word, cfg, &mut rng, &p.ins[k], &p.rep[k], excl),
    });
    (r.map(|(word, excl)| State { word, excl: excl.into_iter().collect() }), rng.draws())
}

// ------------------------------------------------------------------------------------------------
// reference: every result of exactly one enabled edit (from the statement)
// ------------------------------------------------------------------------------------------------

struct Cand {
    what: String,
    result: State,
    /// the edit alters or uses a character at an excluded position
    touches_excluded: bool,
}

/// All results the statement allows for `edit_word(word, excl)`: the word unchanged, or exactly one
/// edit of an enabled kind that the providers offer. Candidates that touch an excluded character are
/// listed too (flagged) so that a violation can be named precisely.
/// * insertion of s at gap p: touches no existing character (weakest reading: every gap is allowed;
///   the code is stricter and avoids gaps next to an excluded character); positions >= p shift by
///   |s|, the inserted positions p..p+|s| are new.
/// * deletion of character p: positions > p shift by -1; nothing new.
/// * replacement of character p by s: positions > p shift by |s|-1; p..p+|s| are new.
/// * swap of p and p+1: no shift; p and p+1 are new.
fn candidates(st: &State, cfg: Config) -> Vec<Cand> {
    let cs = refs::chars(&st.word, cfg.g);
    let n = cs.len();
    let len = |s: &str| refs::chars(s, cfg.g).len();
    let ctx = |i: Option<usize>| i.and_then(|i| cs.get(i).copied());
    let mut out = vec![Cand { what: "unchanged".into(), result: st.clone(), touches_excluded: false }];
    if cfg.kinds & 1 != 0 {
        for p in 0..=n {
            if let Some(strs) = insert_strings(cfg.provider, ctx(p.checked_sub(1)), ctx(Some(p))) {
                for s in strs {
                    let mut excl: BTreeSet<usize> = st.excl.iter().map(|i| if *i >= p { *i + len(s) } else { *i }).collect();
                    excl.extend(p..p + len(s));
                    let word = format!("{}{}{}", cs[..p].concat(), s, cs[p..].concat());
                    out.push(Cand { what: format!("insert {s:?} at {p}"), result: State { word, excl }, touches_excluded: false });
                }
            }
        }
    }
    if cfg.kinds & 2 != 0 && (cfg.full_delete || n > 1) {
        for p in 0..n {
            if can_delete(cfg.provider)(cs[p]) {
                let word = format!("{}{}", cs[..p].concat(), cs[p + 1..].concat());
                let excl = st.excl.iter().filter(|i| **i != p).map(|i| if *i > p { *i - 1 } else { *i }).collect();
                out.push(Cand { what: format!("delete {p}"), result: State { word, excl }, touches_excluded: st.excl.contains(&p) });
            }
        }
    }
    if cfg.kinds & 4 != 0 {
        for p in 0..n {
            if let Some(strs) = replace_strings(cfg.provider, ctx(p.checked_sub(1)), cs[p], ctx(Some(p + 1))) {
                for s in strs {
                    // (p itself is excluded only in the flagged candidates; it is replaced, not shifted)
                    let mut excl: BTreeSet<usize> = st.excl.iter().filter(|i| **i != p).map(|i| if *i > p { *i + len(s) - 1 } else { *i }).collect();
                    excl.extend(p..p + len(s));
                    let word = format!("{}{}{}", cs[..p].concat(), s, cs[p + 1..].concat());
                    out.push(Cand { what: format!("replace {p} by {s:?}"), result: State { word, excl }, touches_excluded: st.excl.contains(&p) });
                }
            }
        }
    }
    if cfg.kinds & 8 != 0 {
        for p in 0..n.saturating_sub(1) {
            if can_swap(cfg.provider)(cs[p], cs[p + 1]) {
                let mut excl = st.excl.clone();
                excl.extend([p, p + 1]);
                let word = format!("{}{}{}{}", cs[..p].concat(), cs[p + 1], cs[p], cs[p + 2..].concat());
                out.push(Cand { what: format!("swap {p},{}", p + 1), result: State { word, excl }, touches_excluded: st.excl.contains(&p) || st.excl.contains(&(p + 1)) });
            }
        }
    }
    out
}

fn kinds_json(kinds: u32) -> Vec<&'static str> {
    (0..4).filter(|i| kinds >> i & 1 == 1).map(|i| KIND_NAMES[i]).collect()
}

fn case_json(st: &State, cfg: Config, script: &[u64], chain: &[State]) -> Value {
    json!({
        "word": st.word, "exclude": st.excl, "use_graphemes": cfg.g, "kinds": kinds_json(cfg.kinds),
        "provider": PROVIDERS[cfg.provider], "full_delete": cfg.full_delete, "script": script,
        "chain_before": chain.iter().map(|s| json!({"word": s.word, "exclude": s.excl})).collect::<Vec<_>>(),
    })
}

/// One case = one `edit_word` call under one random stream, judged against the reference set.
/// Returns the result state and the number of draws.
fn check(run: &mut Run, p: &Providers, st: &State, cfg: Config, cands: &[Cand], script: &[u64], chain: &[State]) -> (Option<State>, usize) {
    run.evaluations += 1;
    run.calls += 1;
    let case = || case_json(st, cfg, script, chain);
    run.sample(case);
    let (r, draws) = call(p, st, cfg, script);
    let res = match r {
        Err(msg) => {
            let class = if msg.contains("subtract with overflow") && msg.contains("src/corrupt.rs") { D6 } else { "" };
            run.violation("no-panic", class, case(), format!("edit_word panicked: {msg}"));
            return (None, draws);
        }
        Ok(res) => res,
    };
    run.compared += 1;
    if res != *st {
        run.nontrivial += 1;
    }
    let new_len = refs::chars(&res.word, cfg.g).len();
    if res.excl.iter().any(|i| *i >= new_len) {
        run.violation("exclusion-within-word", "", case(), format!("returned ({:?}, {:?}) but the new word has {new_len} characters", res.word, res.excl));
    }
    // fast path: an allowed candidate with exactly this word and exclusion set
    if cands.iter().any(|c| !c.touches_excluded && c.result == res) {
        return (Some(res), draws);
    }
    let same_word: Vec<&Cand> = cands.iter().filter(|c| c.result.word == res.word).collect();
    if same_word.is_empty() {
        run.violation("one-enabled-edit", "", case(), format!("returned word {:?} is neither the word nor the word with exactly one enabled edit offered by the providers", res.word));
    } else if same_word.iter().any(|c| !c.touches_excluded && c.result.excl == res.excl) {
        // allowed
    } else if same_word.iter().all(|c| c.touches_excluded) {
        run.violation("excluded-position-untouched", "", case(), format!("returned word {:?} is only obtainable by an edit at an excluded position ({})", res.word, same_word[0].what));
    } else {
        let c = same_word.iter().find(|c| !c.touches_excluded).unwrap();
        run.violation("exclusion-set-reindexed", "", case(), format!("returned ({:?}, {:?}); for {} the exclusion set must be {:?}", res.word, res.excl, c.what, c.result.excl));
    }
    (Some(res), draws)
}

/// All random streams for one state: DFS over scripts. Returns the distinct results reached.
fn explore(run: &mut Run, p: &Providers, grids: &[Vec<u64>], st: &State, cfg: Config, chain: &[State]) -> BTreeSet<State> {
    let cands = candidates(st, cfg);
    // cells per draw: at least as many as any single draw can have alternatives
    // (<= 4 kinds, <= characters + 1 positions, <= 3 edit strings)
    let k = (refs::chars(&st.word, cfg.g).len() + 1).max(4).min(GRID_CAP.load(std::sync::atomic::Ordering::Relaxed));
    let grid = &grids[k.min(grids.len() - 1)];
    let mut reached = BTreeSet::new();
    let mut stack: Vec<Vec<u64>> = vec![vec![]];
    let (mut max_draws, mut leaves) = (0, 0u64);
    while let Some(script) = stack.pop() {
        let (res, draws) = check(run, p, st, cfg, &cands, &script, chain);
        max_draws = max_draws.max(draws);
        if draws > script.len() && script.len() < MAX_DRAWS {
            // the call read beyond the script: explore every value of the next position
            for v in grid.iter().rev() {
                let mut s = script.clone();
                s.push(*v);
                stack.push(s);
            }
        } else {
            if draws > script.len() {
                run.capped.get_or_insert(format!("a call consumed more than {MAX_DRAWS} random words; streams beyond that are not enumerated"));
            }
            leaves += 1;
        }
        if let Some(r) = res {
            reached.insert(r);
        }
    }
    run.count_n("random streams (complete scripts)", leaves);
    run.count(&format!("states whose calls make at most {max_draws} draws"));
    reached
}

/// cells per random draw are capped at this number (40 = the largest grid built; the long phase uses
/// a coarser grid: its positions are then a regular sample of the word, stated in the bounds)
static GRID_CAP: std::sync::atomic::AtomicUsize = std::sync::atomic::AtomicUsize::new(40);

struct UnitDesc {
    word: String,
    g: bool,
    kinds: u32,
}

fn units(words: &[String]) -> Vec<UnitDesc> {
    let mut out = vec![];
    for w in words {
        for g in [false, true] {
            for kinds in 0..16u32 {
                out.push(UnitDesc { word: w.clone(), g, kinds });
            }
        }
    }
    // equal-cost neighbours so that every 16th unit gives balanced shards; still simplest first
    // (cost grows with the characters of the word in the mode, its symbols (chain bound) and the kinds)
    // within a cost class a fixed hash order, so that no shard always gets the same last symbols
    let fnv = |u: &UnitDesc| u.word.bytes().chain([u.kinds as u8, u.g as u8]).fold(0xcbf29ce484222325u64, |h, b| (h ^ b as u64).wrapping_mul(0x100000001b3));
    out.sort_by_key(|u| (refs::chars(&u.word, u.g).len(), refs::chars(&u.word, true).len(), u.kinds.count_ones(), fnv(u)));
    out
}

fn main() {
    let mut run = Run::from_env("C15");
    if let Err(e) = srng::selftest() {
        run.violation("machinery-rng-selftest", "machinery", json!({}), e);
    }
    let provs = providers();
    let grids: Vec<Vec<u64>> = (0..=40u64).map(|k| if k == 0 { vec![] } else { srng::grid(k) }).collect();
    if let Some(c) = run.replay_case() {
        let kinds = c["kinds"].as_array().unwrap().iter().map(|k| 1u32 << KIND_NAMES.iter().position(|n| Some(*n) == k.as_str()).unwrap()).sum();
        let cfg = Config {
            g: c["use_graphemes"].as_bool().unwrap(),
            kinds,
            provider: PROVIDERS.iter().position(|n| Some(*n) == c["provider"].as_str()).unwrap(),
            full_delete: c["full_delete"].as_bool().unwrap(),
        };
        let st = State { word: c["word"].as_str().unwrap().to_string(), excl: c["exclude"].as_array().unwrap().iter().map(|i| i.as_u64().unwrap() as usize).collect() };
        let script: Vec<u64> = c["script"].as_array().unwrap().iter().map(|v| v.as_u64().unwrap()).collect();
        let cands = candidates(&st, cfg);
        check(&mut run, &provs, &st, cfg, &cands, &script, &[]);
        run.finish();
    }
    let max_len = run.pick(3, 4);
    // chain bound by the number of symbols of the start word: thorough explores chains of 3 edits
    // from words of up to 3 symbols and chains of 2 from the 4-symbol words (cost)
    let quick = run.quick();
    let chain_bound = move |symbols: usize| if quick || symbols > 3 { 2 } else { 3 };
    let mut words = strings(&ALPHA, max_len);
    // second family: pure-ASCII words in which a character is nevertheless two code points (CR LF is one
    // grapheme cluster); the context tables know nothing about it, the always-matching providers do
    words.extend(strings(&["a", "\r\n"], 3).into_iter().filter(|w| w.contains('\r')));
    // start word -> its chain bound
    let initial: HashMap<&str, usize> = words.iter().map(|w| (w.as_str(), chain_bound(refs::chars(w, true).len()))).collect();
    let all = units(&words);
    if let Some(n) = run.describe_unit() {
        let u = &all[n as usize];
        println!("{}", json!({"word": u.word, "use_graphemes": u.g, "kinds": kinds_json(u.kinds), "inner": "providers x full_delete x every exclusion subset x every random stream x chains"}));
        return;
    }
    // the grid sizes used beyond srng::selftest's k <= 8: same two facts, checked here
    {
        use rand::Rng;
        for k in 9..=40usize {
            for n in 1..=k {
                let mut seen = BTreeSet::new();
                for w in &grids[k] {
                    let mut s = Script::new(vec![*w]);
                    seen.insert(s.random_range(0..n));
                    if s.draws() != 1 {
                        run.violation("machinery-rng-selftest", "machinery", json!({"k": k, "n": n}), format!("random_range(0..{n}) consumed {} words for grid({k})", s.draws()));
                    }
                }
                if seen.len() != n {
                    run.violation("machinery-rng-selftest", "machinery", json!({"k": k, "n": n}), format!("grid({k}) reached {} of {n} outcomes", seen.len()));
                }
            }
        }
    }
    run.bounds.insert("alphabet".into(), json!(ALPHA));
    run.bounds.insert("second_alphabet".into(), json!({"symbols": ["a", "\r\n"], "max_symbols": 3, "rule": "words with at least one CR LF"}));
    run.bounds.insert("max_symbols_per_word".into(), json!(max_len));
    run.bounds.insert("words".into(), json!(words.len()));
    run.bounds.insert("use_graphemes".into(), json!([false, true]));
    run.bounds.insert("kinds".into(), json!("all 16 subsets of {insert, delete, replace, swap}"));
    run.bounds.insert("exclusion_sets".into(), json!("all subsets of the word's character positions"));
    run.bounds.insert(
        "providers".into(),
        json!({
            "context-full": "real InsertEdits/ReplaceEdits; every context over {<bow>,<eow>,a,b,ä,e,U+0301,e+U+0301}; insertions x | ye+U+0301 (only x after <bow>, only the long one before <eow>); replacements x | \"\" | ye+U+0301 (not the long one after <bow>, no x before <eow>); can_delete refuses ä; can_swap refuses equal neighbours",
            "context-edge": "as context-full but only the contexts with <bow> or <eow>",
            "mock-always": "always-matching providers (x | ye+U+0301, x | \"\" | ye+U+0301), can_delete / can_swap always true",
        }),
    );
    run.bounds.insert("full_delete".into(), json!("false and true (true only where delete is enabled)"));
    run.bounds.insert("random_streams".into(), json!(format!("all: script DFS, grid of max(4, characters+1) evenly spaced words per draw (>= the alternatives of any draw: <= 4 kinds, <= characters+1 positions, <= 3 edit strings), extended while the call consumes more words than the script holds (cap {MAX_DRAWS})")));
    run.bounds.insert("max_chain_length".into(), json!(if quick { "2" } else { "3 from start words of up to 3 symbols, 2 from start words of 4 symbols" }));
    run.extra.insert(
        "rule".into(),
        json!("a unit is (word, use_graphemes, kinds); inside: providers x full_delete x every exclusion subset as start states; every state is explored under every random stream (one case = one edit_word call under one stream) and every distinct result is explored again with the returned exclusion set, up to the chain bound; a result state that is itself a start state of the enumeration (word over the alphabet within the length bound) is not re-explored because it is explored with the full chain bound in its own unit, and a state already explored at the same or a smaller depth in the unit is skipped; a case is non-trivial when the call changed the word or the exclusion set; hist 'reached' / 'allowed' sum the distinct results per explored state and the size of the reference set"),
    );
    run.assumptions.push("rand 0.9: random_range / WeightedIndex / random::<f64>() consume one word per draw and are monotone in it (srng::selftest, and the same check for the larger grids, run at start)".into());

    // long words: character counts around the powers of two a size threshold would sit at; one call
    // per random stream (no chains), every single kind and all kinds together, no exclusions and
    // exclusions at the start, in the middle and at the end; the positions a draw can choose are a
    // regular grid of 12 cells per draw (the short words above cover every position)
    {
        let lens = tu_verif::enumerate::threshold_lengths(run.pick(6, 8));
        run.bounds.insert("long_phase".into(), json!(format!("character counts {lens:?} x (2 repeated patterns, one short word around a grapheme cluster of that many code points) x use_graphemes x kinds {{each alone, all}} x providers {{context-full, mock-always}} x exclusions {{none, start+middle+end}} x random streams on a 12-cell grid per draw")));
        for (k, n) in lens.iter().enumerate() {
            if !run.unit((all.len() + k) as u64) {
                continue;
            }
            GRID_CAP.store(12, std::sync::atomic::Ordering::Relaxed);
            // (and a short word around one grapheme cluster of n code points)
            let w = format!("a{}", "\u{301}".repeat(*n - 1));
            let mut words: Vec<String> = [&["a", "b"][..], &["a", "ä", "e\u{301}", "b"][..]].iter().map(|pat| tu_verif::enumerate::repeat_symbols(pat, *n)).collect();
            words.push(format!("b{w}ab"));
            for word in words {
                for g in [false, true] {
                    let nch = refs::chars(&word, g).len();
                    for kinds in [1u32, 2, 4, 8, 15] {
                        for provider in [0usize, 2] {
                            let cfg = Config { g, kinds, provider, full_delete: false };
                            for excl in [BTreeSet::new(), [0, nch / 2, nch - 1].into_iter().collect::<BTreeSet<usize>>()] {
                                let st = State { word: word.clone(), excl };
                                explore(&mut run, &provs, &grids, &st, cfg, &[]);
                                run.tick();
                            }
                        }
                    }
                }
            }
            GRID_CAP.store(40, std::sync::atomic::Ordering::Relaxed);
        }
    }
    for (idx, u) in all.iter().enumerate() {
        if !run.unit(idx as u64) {
            continue;
        }
        if run.out_of_time() {
            break;
        }
        let n = refs::chars(&u.word, u.g).len();
        let max_chain = initial[u.word.as_str()];
        for provider in 0..PROVIDERS.len() {
            for full_delete in [false, true] {
                if full_delete && u.kinds & 2 == 0 {
                    continue; // full_delete is a field of the delete provider
                }
                let cfg = Config { g: u.g, kinds: u.kinds, provider, full_delete };
                // state -> smallest depth at which it was explored
                let mut explored: HashMap<State, usize> = HashMap::new();
                for mask in 0..(1u32 << n) {
                    run.tick();
                    let start = State { word: u.word.clone(), excl: (0..n).filter(|i| mask >> i & 1 == 1).collect() };
                    let mut frontier: Vec<(State, Vec<State>)> = vec![(start, vec![])];
                    for depth in 1..=max_chain {
                        let mut next: Vec<(State, Vec<State>)> = vec![];
                        let mut queued: HashSet<State> = HashSet::new();
                        for (st, chain) in &frontier {
                            if depth > 1 {
                                // a start state of another unit, explored there at least as deep as here
                                if initial.get(st.word.as_str()).map(|b| *b > max_chain - depth).unwrap_or(false) {
                                    run.count("chain states that are start states elsewhere (not re-explored)");
                                    continue;
                                }
                                if explored.get(st).map(|d| *d <= depth).unwrap_or(false) {
                                    continue;
                                }
                                explored.insert(st.clone(), depth);
                            }
                            let before = run.num_violations();
                            let reached = explore(&mut run, &provs, &grids, st, cfg, chain);
                            let allowed: BTreeSet<State> = candidates(st, cfg).into_iter().filter(|c| !c.touches_excluded).map(|c| c.result).collect();
                            run.count(&format!("states explored at chain position {depth}"));
                            run.count_n("reached: distinct results per explored state", reached.len() as u64);
                            run.count_n("allowed: size of the reference set per explored state", allowed.len() as u64);
                            for r in &reached {
                                run.outcome(&(cfg.g, cfg.kinds, cfg.provider, cfg.full_delete, st, r));
                            }
                            // coverage of the owned randomness: without exclusions the statement's
                            // set and the code's set coincide, so every allowed result must occur
                            if st.excl.is_empty() && run.num_violations() == before {
                                run.count_n("states without exclusions: allowed results other than 'unchanged' (all must be reached)", allowed.iter().filter(|a| *a != st).count() as u64);
                                run.count_n("states without exclusions: of those reached", allowed.iter().filter(|a| *a != st && reached.contains(a)).count() as u64);
                                // ("unchanged" is always allowed but need not occur)
                                let missing: Vec<&State> = allowed.difference(&reached).filter(|m| *m != st).take(3).collect();
                                if !missing.is_empty() {
                                    run.violation("coverage-all-allowed-results-reached", "machinery", case_json(st, cfg, &[], chain), format!("all random streams produced {} distinct results but the reference set has {}; not reached e.g. {missing:?}", reached.len(), allowed.len()));
                                }
                            }
                            if depth < max_chain {
                                for r in reached {
                                    if r != *st && queued.insert(r.clone()) {
                                        let mut c = chain.clone();
                                        c.push(st.clone());
                                        next.push((r, c));
                                    }
                                }
                            }
                        }
                        frontier = next;
                    }
                }
            }
        }
    }
    run.finish();
}
