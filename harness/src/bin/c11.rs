//! C11 — `clean` produces the whitespace normal form; `word_boundaries`, `remove`, `full` match it.
//! Engine A (DESIGN 5/C11): every string over a 10-symbol alphabet (two letters, six Unicode
//! White_Space characters incl. CR, LF, NBSP, ideographic space, the zero-width space U+200B which
//! is NOT White_Space, and the combining acute U+0301) up to a length bound x use_graphemes, each
//! compared clause by clause with references written from the statement.
//!
//! Space.  DESIGN asks for U+0301 "only after a base character".  All 10^L strings are enumerated
//! (a superset); strings in which some U+0301 does not follow `a`, `ä` or another attached U+0301
//! are counted separately in `hist` ("degenerate-mark").  In grapheme mode the stated domain ("no
//! grapheme cluster mixes whitespace with non-whitespace code points") is enforced by the predicate
//! `refs::has_mixed_cluster`; e.g. " \u{301}" and "\u{a0}\u{301}" are skipped (and counted), "\r\n"
//! is a legal all-whitespace cluster and is kept, "\t\u{301}" is two clusters and is kept.
//!
//! Readings (always the one under which fewer behaviours are violations, DESIGN 6).  A "character"
//! is a code point resp. an extended grapheme cluster; it is whitespace iff all its code points are
//! White_Space (the statement's anchor `Character::is_whitespace`).  Inside the stated domain every
//! cluster is all-whitespace or whitespace-free, hence the words of `s` as maximal runs of
//! non-whitespace characters are exactly `s.split_whitespace()` in BOTH modes (the check verifies
//! this coincidence itself, clause `harness-reference-self-check`), and the expected value of
//! `clean(s)` is unambiguous.  Ambiguity only concerns clauses that look at clean's OUTPUT, because
//! the output can leave the domain ("a\t\u{301}" -> "a \u{301}", whose space now sits in a mixed
//! cluster):
//!  * "no leading / trailing / consecutive whitespace, only single U+0020 separators" is judged at
//!    CHARACTER level of the mode.  Every character-level violation is also a code-point-level
//!    violation (a whitespace cluster consists of whitespace code points only, "\r\n" is two
//!    consecutive ones) but not vice versa, so this is the weakest reading.
//!  * "preserves the sequence of non-whitespace characters" is judged at CODE-POINT level: in the
//!    domain equal non-whitespace cluster sequences imply equal non-whitespace code-point sequences,
//!    not vice versa (re-clustering of the output).
//!  * "idempotent": `clean(clean(s)) == clean(s)` is demanded only when `clean(s)` is itself inside
//!    the stated domain (always in code-point mode); otherwise the second call is a call outside
//!    the domain about which the statement says nothing.  Those cases are counted in `hist`.
//!  * `word_boundaries`: half-open index ranges into the character sequence, the convention of
//!    `CharString::sub` (and of the repository's own test); `sub(range)` must give the word.
use serde_json::{json, Value};
use text_utils::text::{clean, word_boundaries};
use text_utils::unicode::CharString;
use text_utils::whitespace::{full, remove};
use tu_verif::guard::catch;
use tu_verif::refs;
use tu_verif::run::Run;

/// (à: its UTF-8 encoding C3 A0 ends in the byte that is NBSP in Latin-1)
/// (U+FEFF: the byte order mark, a zero-width character that is not White_Space)
const ALPHA: [&str; 12] = ["a", "ä", " ", "\t", "\n", "\r", "\u{a0}", "\u{3000}", "\u{200b}", "\u{301}", "\u{e0}", "\u{feff}"];
/// strings per enumeration unit (consecutive shortlex indices)
const BLOCK: u64 = 128;

/// the `idx`-th string over ALPHA in shortlex order (same order as `enumerate::strings`)
fn nth_string(idx: u64) -> String {
    let k = ALPHA.len() as u64;
    let (mut len, mut off, mut layer) = (0usize, idx, 1u64);
    while off >= layer {
        off -= layer;
        layer *= k;
        len += 1;
    }
    let mut digits = vec![0usize; len];
    for d in digits.iter_mut().rev() {
        *d = (off % k) as usize;
        off /= k;
    }
    digits.into_iter().map(|d| ALPHA[d]).collect()
}

fn total_strings(max_len: usize) -> u64 {
    let k = ALPHA.len() as u64;
    (0..=max_len as u32).map(|l| k.pow(l)).sum()
}

/// some U+0301 is not attached to a base letter (directly or through other attached marks)
fn has_degenerate_mark(s: &str) -> bool {
    let mut attached = false; // previous code point is a letter or an attached mark
    for c in s.chars() {
        if c == '\u{301}' {
            if !attached {
                return true;
            }
        } else {
            attached = c == 'a' || c == 'ä';
        }
    }
    false
}

fn case_json(s: &str, g: bool) -> Value {
    json!({"s": s, "use_graphemes": g})
}

fn check(run: &mut Run, s: &str, g: bool) {
    run.evaluations += 1;
    if g && refs::has_mixed_cluster(s) {
        run.count("graphemes:outside-stated-domain(skipped)");
        return;
    }
    let mode = if g { "graphemes" } else { "code-points" };
    run.count(&format!("{mode}:{}", if has_degenerate_mark(s) { "degenerate-mark" } else { "marks-attached-to-letters" }));
    run.sample(|| case_json(s, g));
    let case = || case_json(s, g);

    // ---- references, from the statement
    let cs = refs::chars(s, g);
    let ws: Vec<bool> = cs.iter().map(|c| refs::is_ws(c)).collect();
    // maximal runs of non-whitespace characters, half-open index ranges
    let mut runs: Vec<(usize, usize)> = vec![];
    let mut i = 0;
    while i < cs.len() {
        if ws[i] {
            i += 1;
            continue;
        }
        let start = i;
        while i < cs.len() && !ws[i] {
            i += 1;
        }
        runs.push((start, i));
    }
    let words: Vec<String> = runs.iter().map(|(a, b)| cs[*a..*b].concat()).collect();
    let split: Vec<&str> = s.split_whitespace().collect();
    if words != split {
        // cannot happen inside the stated domain; would be an error of this check, made loud
        run.violation("harness-reference-self-check", "", case(), format!("character-level words {words:?} differ from split_whitespace {split:?}"));
        return;
    }
    let nonws: Vec<&str> = cs.iter().zip(&ws).filter(|(_, w)| !**w).map(|(c, _)| *c).collect();
    let expect_clean = split.join(" ");
    if ws.iter().any(|w| *w) && ws.iter().any(|w| !*w) {
        run.nontrivial += 1;
    }

    // ---- the subject's character sequence is the reference's
    run.calls += 1;
    match catch(|| {
        let c = CharString::new(s, g);
        (c.len(), (0..c.len()).map(|i| c.get(i).map(str::to_string)).collect::<Vec<_>>())
    }) {
        Err(p) => run.violation("no-panic", "", case(), format!("CharString::new/len/get panicked: {p}")),
        Ok((len, got)) => {
            run.compared += 1;
            let exp: Vec<Option<String>> = cs.iter().map(|c| Some(c.to_string())).collect();
            if len != cs.len() || got != exp {
                run.violation("characters-equal-reference", "", case(), format!("CharString has {len} characters {got:?}, reference {cs:?}"));
            }
        }
    }

    // ---- clean
    run.calls += 1;
    match catch(|| clean(s, g)) {
        Err(p) => run.violation("no-panic", "", case(), format!("clean panicked: {p}")),
        Ok(c) => {
            run.compared += 1;
            run.outcome(&(s, g, &c));
            if c != expect_clean {
                run.violation("clean-equals-words-joined", "", case(), format!("clean = {c:?}, whitespace-split words joined by single spaces = {expect_clean:?}"));
            }
            if !refs::is_clean(&c, g) {
                run.violation("clean-normal-form", "", case(), format!("clean = {c:?} has leading, trailing, consecutive or non-U+0020 whitespace characters"));
            }
            if refs::strip_ws_code_points(&c) != refs::strip_ws_code_points(s) {
                run.violation("clean-preserves-non-whitespace", "", case(), format!("clean = {c:?}: non-whitespace code points {:?} became {:?}", refs::strip_ws_code_points(s), refs::strip_ws_code_points(&c)));
            }
            if g && refs::has_mixed_cluster(&c) {
                run.count("graphemes:clean-output-outside-domain(idempotence-not-demanded)");
                // information only, never a violation: what the second call does out there
                // (smallest case: "a\t\u{301}" -> "a \u{301}" -> "a\u{301}")
                run.calls += 1;
                match catch(|| clean(&c, g)) {
                    Err(_) => run.count("graphemes:clean-output-outside-domain,second-clean-panics(information)"),
                    Ok(cc) => {
                        if cc != c {
                            run.count("graphemes:clean-output-outside-domain,second-clean-differs(information)");
                        }
                    }
                }
            } else {
                run.calls += 1;
                match catch(|| clean(&c, g)) {
                    Err(p) => run.violation("no-panic", "", case(), format!("clean(clean(s)) panicked: {p}")),
                    Ok(cc) => {
                        run.compared += 1;
                        if cc != c {
                            run.violation("clean-idempotent", "", case(), format!("clean(s) = {c:?}, clean(clean(s)) = {cc:?}"));
                        }
                    }
                }
            }
        }
    }

    // ---- word_boundaries
    run.calls += 1;
    match catch(|| word_boundaries(s, g)) {
        Err(p) => run.violation("no-panic", "", case(), format!("word_boundaries panicked: {p}")),
        Ok(b) => {
            run.compared += 1;
            if b != runs {
                run.violation("word-boundaries-equal-word-ranges", "", case(), format!("word_boundaries = {b:?}, ranges of the maximal non-whitespace runs = {runs:?}"));
            }
        }
    }
    for ((a, b), word) in runs.iter().zip(&words) {
        run.calls += 1;
        match catch(|| CharString::new(s, g).sub(*a, *b).to_string()) {
            Err(p) => run.violation("no-panic", "", case(), format!("CharString::sub({a}, {b}) panicked: {p}")),
            Ok(sub) => {
                run.compared += 1;
                if sub != *word {
                    run.violation("sub-of-word-range-is-word", "", case(), format!("sub({a}, {b}) = {sub:?}, word = {word:?}"));
                }
            }
        }
    }

    // ---- remove, full
    run.calls += 1;
    match catch(|| remove(s, g)) {
        Err(p) => run.violation("no-panic", "", case(), format!("remove panicked: {p}")),
        Ok(r) => {
            run.compared += 1;
            let exp = nonws.concat();
            if r != exp {
                run.violation("remove-equals-non-whitespace-characters", "", case(), format!("remove = {r:?}, expected {exp:?}"));
            }
        }
    }
    run.calls += 1;
    match catch(|| full(s, g)) {
        Err(p) => run.violation("no-panic", "", case(), format!("full panicked: {p}")),
        Ok(f) => {
            run.compared += 1;
            let exp = nonws.join(" ");
            if f != exp {
                run.violation("full-equals-characters-joined", "", case(), format!("full = {f:?}, expected {exp:?}"));
            }
        }
    }
}

/// every character with the Unicode White_Space property (checked against `char::is_whitespace` at start)
const WHITE_SPACE: [char; 25] = [
    '\u{9}', '\u{A}', '\u{B}', '\u{C}', '\u{D}', '\u{20}', '\u{85}', '\u{A0}', '\u{1680}', '\u{2000}', '\u{2001}', '\u{2002}', '\u{2003}', '\u{2004}', '\u{2005}', '\u{2006}', '\u{2007}', '\u{2008}',
    '\u{2009}', '\u{200A}', '\u{2028}', '\u{2029}', '\u{202F}', '\u{205F}', '\u{3000}',
];

/// Phase 2: patterns over {a, ä, X, Y}; X and Y are instantiated with every (ordered pair of) White_Space
/// character(s), so every White_Space character occurs in every position next to ASCII and
/// non-ASCII neighbours, alone and together with every other one.
const PATTERN_ALPHA: [&str; 4] = ["a", "ä", "X", "Y"];

fn instantiate(pattern: &str, x: char, y: char) -> String {
    pattern.chars().map(|c| if c == 'X' { x } else if c == 'Y' { y } else { c }).collect()
}

fn main() {
    let mut run = Run::from_env("C11");
    if let Some(c) = run.replay_case() {
        check(&mut run, c["s"].as_str().unwrap(), c["use_graphemes"].as_bool().unwrap());
        run.finish();
    }
    let max_len = run.pick(5, 6);
    let total = total_strings(max_len);
    let units = total.div_ceil(BLOCK);
    let patterns: Vec<String> = tu_verif::enumerate::strings(&PATTERN_ALPHA, run.pick(4, 5)).into_iter().filter(|p| p.contains('X') || p.contains('Y')).collect();
    if let Some(n) = run.describe_unit() {
        if n >= units && ((n - units) as usize) < patterns.len() {
            println!("{}", json!({"pattern": patterns[(n - units) as usize], "X_and_Y": "every ordered pair of the 25 White_Space characters", "use_graphemes": [false, true]}));
            return;
        }
        if n < units {
            let (lo, hi) = (n * BLOCK, ((n + 1) * BLOCK).min(total) - 1);
            println!("{}", json!({"strings": format!("shortlex indices {lo}..={hi} over {ALPHA:?}"), "first": nth_string(lo), "last": nth_string(hi), "use_graphemes": [false, true]}));
        } else {
            println!("{}", json!({"error": "no such unit"}));
        }
        return;
    }
    run.bounds.insert("alphabet".into(), json!(ALPHA));
    run.bounds.insert("max_symbols_per_string".into(), json!(max_len));
    run.bounds.insert("strings".into(), json!(total));
    run.bounds.insert("use_graphemes".into(), json!([false, true]));
    run.bounds.insert("strings_per_unit".into(), json!(BLOCK));
    run.extra.insert(
        "rule".into(),
        json!("every string over the alphabet up to the length bound (shortlex) x use_graphemes; in grapheme mode strings with a cluster mixing whitespace and non-whitespace code points are outside the stated domain, skipped and counted; a case is non-trivial when the string has at least one whitespace and one non-whitespace character"),
    );
    run.assumptions.push("unicode-segmentation (the same crate version the subject links) decides grapheme clusters in the references and the domain predicate".into());
    run.assumptions.push("char::is_whitespace / str::split_whitespace implement the Unicode White_Space property the statement names".into());
    for c in 0..=0x10FFFFu32 {
        if let Some(ch) = char::from_u32(c) {
            assert_eq!(ch.is_whitespace(), WHITE_SPACE.contains(&ch), "White_Space table out of date for U+{c:X}");
        }
    }
    run.bounds.insert("white_space_phase".into(), json!(format!("{} patterns over {PATTERN_ALPHA:?} with at least one placeholder, X and Y instantiated with every ordered pair of the 25 White_Space characters", patterns.len())));
    // long phase: lengths around the powers of two a size threshold would sit at; words of repeated
    // symbols separated by single, double and mixed whitespace, with a leading / trailing run
    {
        let lens = tu_verif::enumerate::threshold_lengths(run.pick(10, 12));
        let pats: [&[&str]; 6] = [&["a"], &["a", " "], &["ä", "a", " ", " "], &["a", "\t", "\u{a0}", "e\u{301}"], &[" ", "a", "a", "a"], &["\u{0}", " ", "\u{10ffff}", "\u{7f}"]];
        run.bounds.insert("long_phase".into(), json!(format!("lengths {lens:?} (in symbols) x (6 repeated patterns, 5 texts around one grapheme cluster of that many code points, one repeated 2-, 3-, 4-byte character at every byte alignment alone and between whitespace) x use_graphemes")));
        for (k, n) in lens.iter().enumerate() {
            if !run.unit(units + (patterns.len() + k) as u64) {
                continue;
            }
            for pat in pats {
                let text = tu_verif::enumerate::repeat_symbols(pat, *n);
                for g in [false, true] {
                    check(&mut run, &text, g);
                }
            }
            // one grapheme cluster of n code points, alone and between whitespace runs
            let w = format!("a{}", "\u{301}".repeat(*n - 1));
            let mut aligned = tu_verif::enumerate::byte_aligned_texts(*n);
            aligned.extend(tu_verif::enumerate::byte_aligned_texts(*n).into_iter().map(|t| format!(" {t}  {t}\u{a0}")));
            for text in [w.clone(), format!(" {w} "), format!("x {w}  y"), format!("{w}\t{w}"), format!("\u{a0}{w}{w}\r\n")].into_iter().chain(aligned) {
                for g in [false, true] {
                    check(&mut run, &text, g);
                }
            }
        }
    }
    // characters at which extended and legacy grapheme clusters differ (a spacing combining mark, a
    // prepended character, a virama conjunct), with whitespace and a plain letter
    {
        const CLUSTER_ALPHA: [&str; 7] = ["\u{915}", "\u{93f}", "\u{94d}", "\u{600}", "\u{e33}", " ", "a"];
        let texts = tu_verif::enumerate::strings(&CLUSTER_ALPHA, run.pick(4, 5));
        run.bounds.insert("cluster_prefix_phase".into(), json!(format!("every string of at most {} symbols over [U+0915, U+093F, U+094D, U+0600, U+0E33, space, a] ({} strings) x use_graphemes", run.pick(4, 5), texts.len())));
        let base = units + (patterns.len() + tu_verif::enumerate::threshold_lengths(run.pick(10, 12)).len()) as u64;
        for (k, part) in texts.chunks(256).enumerate() {
            if !run.unit(base + k as u64) {
                continue;
            }
            for t in part {
                for g in [false, true] {
                    check(&mut run, t, g);
                }
            }
            run.tick();
        }
    }
    for (j, pat) in patterns.iter().enumerate() {
        if !run.unit(units + j as u64) {
            continue;
        }
        if run.out_of_time() {
            break;
        }
        let has_y = pat.contains('Y');
        let has_x = pat.contains('X');
        for &x in &WHITE_SPACE {
            for &y in &WHITE_SPACE {
                let s = instantiate(pat, x, y);
                for g in [false, true] {
                    check(&mut run, &s, g);
                }
                if !has_y {
                    break;
                }
            }
            if !has_x {
                break;
            }
        }
    }
    for u in 0..units {
        if !run.unit(u) {
            continue;
        }
        if run.out_of_time() {
            break;
        }
        for idx in u * BLOCK..((u + 1) * BLOCK).min(total) {
            let s = nth_string(idx);
            for g in [false, true] {
                check(&mut run, &s, g);
            }
        }
    }
    run.finish();
}
