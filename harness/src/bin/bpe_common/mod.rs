//! Shared by c02.rs and c03.rs (included with `#[path]`): the bounded space of merge tables, the
//! strings, the tokenizer configurations and the enumeration driver. The two binaries differ only in
//! the oracle they plug in (DESIGN 5/C02, 5/C03).
//!
//! Space (per tier, exact numbers end up in `bounds` of the report):
//! * F1: ALL well-formed merge tables with 0..=2 (quick) / 0..=3 (thorough) entries over the base
//!   tokens {a, b, c, ' ', 0xC3, 0xA4} (the last two are the UTF-8 bytes of 'ä');
//! * F2 (thorough): ALL well-formed 4-entry tables over {a, b, ' '};
//! * F3: adversarial hand tables (overlapping, competing, deep chains, whitespace, split UTF-8);
//! * F4: tables produced by `train_bpe` on small corpora (kept only if well-formed, ids 0..n-1).
//!
//! For every table: the tokenizer without vocabulary limit and without prefix/suffix is run over
//! ALL strings over {a, b, c, ' ', ä, '\n'} up to the main length bound; then every
//! `max_vocab_size` cut x every prefix/suffix configuration is run over all strings up to the
//! (smaller) product length bound.
#![allow(dead_code)]
use serde_json::{json, Value};
use std::collections::{BTreeMap, BTreeSet, HashMap};
use text_utils::tokenization::{train_bpe, BPETokenizer, BPETokenizerConfig, SpecialConfig};
use tu_verif::enumerate::strings;
use tu_verif::guard::{catch, quiet_panics};
use tu_verif::refs::{self, Scratch, Table};
use tu_verif::run::Run;

pub const ALPHA: [&str; 6] = ["a", "b", "c", " ", "ä", "\n"];
/// second string set: every kind of White_Space as word separator (run on the hand tables and the
/// smallest exhaustive tables only)
/// (U+0000 is the lowest byte / token id: a value an implementation might use as a sentinel)
pub const WS_ALPHA: [&str; 8] = ["a", "b", " ", "\u{a0}", "\t", "\u{3000}", "\u{2028}", "\u{0}"];
pub const WS_MAX_LEN: usize = 4;
/// the spellings of special tokens as plain text, whitespace and a letter
pub const SPECIAL_TEXT_ALPHA: [&str; 6] = ["<pad>", "<bos>", " ", "a", "<", "\n"];
pub const SPECIAL_TEXT_MAX_LEN: usize = 4;
/// number of special tokens of `SpecialConfig::default()` (<unk>, <bos>, <eos>, <pad>)
pub const NUM_SPECIAL: usize = 4;

pub fn base6() -> Vec<Vec<u8>> {
    vec![b"a".to_vec(), b"b".to_vec(), b"c".to_vec(), b" ".to_vec(), vec![0xC3], vec![0xA4]]
}

pub fn base3() -> Vec<Vec<u8>> {
    vec![b"a".to_vec(), b"b".to_vec(), b" ".to_vec()]
}

/// prefix / suffix / use_graphemes configurations
pub const CONFIGS: [(&[&str], &[&str], bool); 3] =
    [(&[], &[], true), (&["<bos>"], &["<eos>"], false), (&["<bos>", "<pad>"], &["<eos>"], true)];

// ------------------------------------------------------------------------------------------------
// tables
// ------------------------------------------------------------------------------------------------

/// every table that extends `t` by one entry: a concatenation of two tokens (base tokens or entries
/// of `t`) that is not an entry yet; in byte order, each once
fn extensions(base: &[Vec<u8>], t: &Table) -> Vec<Table> {
    let toks: Vec<&Vec<u8>> = base.iter().chain(t.iter()).collect();
    let mut cands: BTreeSet<Vec<u8>> = BTreeSet::new();
    for x in &toks {
        for y in &toks {
            let c = [x.as_slice(), y.as_slice()].concat();
            if !t.contains(&c) {
                cands.insert(c);
            }
        }
    }
    cands
        .into_iter()
        .map(|c| {
            let mut t2 = t.clone();
            t2.push(c);
            t2
        })
        .collect()
}

/// `layers[n]` = all well-formed tables with exactly n entries over `base`
pub fn table_layers(base: &[Vec<u8>], max_entries: usize) -> Vec<Vec<Table>> {
    let mut layers: Vec<Vec<Table>> = vec![vec![vec![]]];
    for n in 0..max_entries {
        let next: Vec<Table> = layers[n].iter().flat_map(|t| extensions(base, t)).collect();
        layers.push(next);
    }
    layers
}

fn tb(entries: &[&[u8]]) -> Table {
    entries.iter().map(|e| e.to_vec()).collect()
}

pub fn hand_tables() -> Vec<Table> {
    let a = 0xC3u8;
    let u = 0xA4u8;
    vec![
        // overlapping powers of one letter
        tb(&[b"aa", b"aaa", b"aaaa"]),
        tb(&[b"aa", b"aaaa"]),
        tb(&[b"aa", b"aaa", b"aaaa", b"aaaaa", b"aaaaaa"]),
        tb(&[b"aa", b"aaaa", b"aaa", b"aaaaa"]),
        // competing merges
        tb(&[b"ab", b"bc", b"abc"]),
        tb(&[b"bc", b"ab", b"abc"]),
        tb(&[b"ab", b"bc", b"abc", b"bca", b"cab", b"abcabc"]),
        tb(&[b"ab", b"ba", b"aba", b"bab", b"abab", b"baba"]),
        tb(&[b"ba", b"ab", b"bab", b"aba", b"abab"]),
        tb(&[b"ab", b"abab", b"ababab"]),
        tb(&[b"ab", b"ca", b"bc", b"cab", b"abc", b"bca"]),
        // deep chains, left and right branching
        tb(&[b"ab", b"abc", b"abca", b"abcab", b"abcabc"]),
        tb(&[b"bc", b"abc", b"cabc", b"bcabc", b"abcabc"]),
        tb(&[b"ab", b"ca", b"abca", b"bc", b"abcabc"]),
        // independent merges in one word (early exit), low ids far right
        tb(&[b"cc", b"bb", b"aa"]),
        tb(&[b"ca", b"ab", b"bb", b"abbb"]),
        // whitespace inside tokens
        tb(&[b" a", b" ab", b" abc", b"  ", b"   a"]),
        tb(&[b"  ", b"  a", b" a", b"\n ", b"\n a", b" \n"]),
        tb(&[b"a ", b"b ", b" a", b" b", b" ab", b" ba"]),
        // the lowest byte inside tokens
        tb(&[&[0u8, b'a'], &[b'a', 0u8], &[0u8, 0u8], &[0u8, b'a', 0u8]]),
        // UTF-8: 'ä' = C3 A4; tokens that split or straddle the character
        tb(&[&[a, u], &[a, u, b'a'], &[b'a', a, u], &[a, u, a, u]]),
        tb(&[&[u, b'a'], &[a, u], &[a, u, b'a']]),
        tb(&[&[u, a], &[a, u], &[a, u, a], &[a, u, a, u]]),
        tb(&[&[b' ', a], &[b' ', a, u], &[u, b'b'], &[b'a', a], &[b'a', a, u]]),
        tb(&[&[a, a], &[u, u], &[u, a], &[a, u], &[a, u, a, u]]),
    ]
}

/// Long texts for the hand tables: one word (bare, after a space, after another letter) made of a
/// short pattern repeated up to a byte length just below, at and just above 2^8, 2^10 and 2^12 (quick:
/// 2^12 with two patterns only) -- behaviour that changes at a size threshold (chunking, a fast path for short words)
/// is out of reach of the exhaustive short strings.
pub fn long_texts(quick: bool) -> Vec<String> {
    let mut lens = vec![255usize, 256, 257, 1023, 1024, 1025];
    if !quick {
        lens.extend([4095, 4096, 4097]);
    }
    let mut out = vec![];
    // quick: around 2^12 only an ASCII and a two-byte pattern, bare and after a space (the reference
    // encoder is quadratic in the word length)
    if quick {
        for l in [4095usize, 4096, 4097, 4098] {
            for pattern in ["ab", "ä"] {
                for lead in ["", " "] {
                    let mut t = lead.to_string();
                    while t.len() + pattern.len() <= l {
                        t.push_str(pattern);
                    }
                    out.push(t);
                }
            }
        }
    }
    for l in lens {
        for pattern in ["ab", "abc", "a", "ä", "ba"] {
            for lead in ["", " ", "b", "x "] {
                let mut t = lead.to_string();
                while t.len() + pattern.len() <= l {
                    t.push_str(pattern);
                }
                out.push(t);
            }
        }
    }
    out
}

/// Training corpora: every clean one-line corpus over {a, b, ' '} with exactly 6 symbols that has at
/// least two words, plus hand-written multi-line corpora that use c and ä.
pub fn corpora() -> Vec<Vec<String>> {
    let mut out: Vec<Vec<String>> = vec![];
    for s in strings(&["a", "b", " "], 6) {
        if s.chars().count() == 6 && refs::is_clean(&s, false) && s.contains(' ') {
            out.push(vec![s]);
        }
    }
    let hand: [&[&str]; 12] = [
        &["abc abc ab", "ab abc"],
        &["ää äa ää", "aä ää ää"],
        &["aaaa aaa aa", "aa aaaa"],
        &["abab abab ab ba", "ab ab"],
        &["ab cab cab", "c ab cab"],
        &["abcabc abcabc abc", "abc abcabc"],
        &["bäb bäb äb", "bä bäb"],
        &["aab aab ab b", "aab ab"],
        &["cba cba ba a", "cba cba", "ba"],
        &["ab ab ab", "ab ab", "ab"],
        &["abc bca cab abc", "abc bca"],
        &["aaaaaa aaaaaa", "aaaaaa aaa"],
    ];
    for h in hand {
        out.push(h.iter().map(|s| s.to_string()).collect());
    }
    out
}

pub const TRAIN_MERGES: [usize; 4] = [1, 2, 3, 5];

#[derive(Clone, Debug)]
pub enum Kind {
    Table { family: &'static str, table: Table },
    Train { corpus: Vec<String>, merges: usize },
}

#[derive(Clone, Debug)]
pub struct Job {
    pub kind: Kind,
    /// length bound of the main run (no limit, no prefix / suffix)
    pub main_len: usize,
    /// true: every max_vocab_size cut x every config; false: cut number j with config j mod 3 only
    pub full_product: bool,
}

pub struct Space {
    pub jobs: Vec<Job>,
    /// units = consecutive job ranges of roughly equal weight
    pub units: Vec<(usize, usize)>,
    pub counts: BTreeMap<String, usize>,
    pub lens: BTreeMap<String, usize>,
    pub len_product: usize,
    pub max_len: usize,
}

pub fn num_strings(l: usize) -> usize {
    (0..=l).map(|i| ALPHA.len().pow(i as u32)).sum::<usize>()
}

pub fn space(run: &Run) -> Space {
    let quick = run.quick();
    let mut jobs: Vec<Job> = vec![];
    let mut counts: BTreeMap<String, usize> = BTreeMap::new();
    let mut lens: BTreeMap<String, usize> = BTreeMap::new();
    // main length bounds per family (quick, thorough)
    let pick = |q: usize, t: usize| if quick { q } else { t };
    let max6 = pick(2, 3);
    for (n, layer) in table_layers(&base6(), max6).into_iter().enumerate() {
        let main_len = match n {
            0 | 1 => 6,
            2 => pick(5, 6),
            _ => 5,
        };
        let key = format!("F1 all tables with {n} entries over {{a,b,c,' ',0xC3,0xA4}}");
        counts.insert(key.clone(), layer.len());
        lens.insert(key, main_len);
        jobs.extend(layer.into_iter().map(|table| Job {
            kind: Kind::Table { family: "F1-exhaustive-6-base-tokens", table },
            main_len,
            full_product: n <= 2,
        }));
    }
    let hand = hand_tables();
    counts.insert("F3 hand tables".into(), hand.len());
    lens.insert("F3 hand tables".into(), pick(6, 7));
    jobs.extend(hand.into_iter().map(|table| Job { kind: Kind::Table { family: "F3-hand", table }, main_len: pick(6, 7), full_product: true }));
    let corp = corpora();
    counts.insert("F4 training corpora".into(), corp.len());
    counts.insert("F4 trainings (corpora x merges)".into(), corp.len() * TRAIN_MERGES.len());
    lens.insert("F4 trained tables".into(), pick(5, 6));
    for c in corp {
        for m in TRAIN_MERGES {
            jobs.push(Job { kind: Kind::Train { corpus: c.clone(), merges: m }, main_len: pick(5, 6), full_product: true });
        }
    }
    if !quick {
        let l4 = table_layers(&base3(), 4).pop().unwrap();
        counts.insert("F2 all tables with 4 entries over {a,b,' '}".into(), l4.len());
        lens.insert("F2 all tables with 4 entries over {a,b,' '}".into(), 5);
        jobs.extend(l4.into_iter().map(|table| Job {
            kind: Kind::Table { family: "F2-exhaustive-4-entries-3-base-tokens", table },
            main_len: 5,
            full_product: false,
        }));
    }
    // F5: alternative derivations. Every well-formed table whose entries are substrings (>= 2 letters)
    // of one word, every subset in every id order: the same token is reachable through different
    // splits, with ids that do not increase along the way (no trained table has that shape)
    let f5 = substring_tables("abcd", 6);
    counts.insert("F5 all tables of substrings of abcd, every subset x every id order".into(), f5.len());
    lens.insert("F5 substring tables (strings over {a,b,c,d})".into(), pick(4, 5));
    jobs.extend(f5.into_iter().map(|table| Job { kind: Kind::Table { family: "F5-substring-orders", table }, main_len: pick(4, 5), full_product: false }));
    if !quick {
        let f5e = substring_tables("abcde", 4);
        counts.insert("F5 all tables of <= 4 substrings of abcde, every id order".into(), f5e.len());
        jobs.extend(f5e.into_iter().map(|table| Job { kind: Kind::Table { family: "F5-substring-orders", table }, main_len: 5, full_product: false }));
    }
    for j in &jobs {
        if let Kind::Table { table, .. } = &j.kind {
            if !refs::table_well_formed(table) {
                eprintln!("enumerated table is not well-formed: {:?}", lossy(table));
                std::process::exit(2);
            }
        }
    }
    let max_len = jobs.iter().map(|j| j.main_len).max().unwrap();
    let mut sp = Space { jobs, units: vec![], counts, lens, len_product: 3, max_len };
    // units: chunks of consecutive jobs of about equal weight (strings of the main run plus the
    // tokenizers of the product part, each about as expensive as 520 strings)
    let target: usize = if quick { 40_000 } else { 300_000 };
    let (mut start, mut w) = (0usize, 0usize);
    for (i, j) in sp.jobs.iter().enumerate() {
        let n = match &j.kind {
            Kind::Table { table, .. } => table.len(),
            Kind::Train { merges, .. } => *merges,
        };
        w += num_strings(j.main_len) + (n + 4) * if j.full_product { CONFIGS.len() } else { 1 } * 520;
        if w >= target {
            sp.units.push((start, i + 1));
            start = i + 1;
            w = 0;
        }
    }
    if start < sp.jobs.len() {
        sp.units.push((start, sp.jobs.len()));
    }
    sp
}

/// all well-formed tables made of at most `max_entries` distinct substrings (>= 2 letters) of `word`,
/// in every order
pub fn substring_tables(word: &str, max_entries: usize) -> Vec<Table> {
    let w = word.as_bytes();
    let mut subs: Vec<Vec<u8>> = vec![];
    for len in 2..=w.len() {
        for i in 0..=w.len() - len {
            subs.push(w[i..i + len].to_vec());
        }
    }
    let mut out: Vec<Table> = vec![];
    fn rec(subs: &[Vec<u8>], cur: &mut Table, max: usize, out: &mut Vec<Table>) {
        if !cur.is_empty() {
            out.push(cur.clone());
        }
        if cur.len() == max {
            return;
        }
        for s in subs {
            if cur.contains(s) {
                continue;
            }
            cur.push(s.clone());
            // prune: a prefix that is not well-formed cannot become well-formed
            if refs::table_well_formed(cur) {
                rec(subs, cur, max, out);
            }
            cur.pop();
        }
    }
    rec(&subs, &mut vec![], max_entries, &mut out);
    out
}

pub fn lossy(t: &Table) -> Vec<String> {
    t.iter().map(|e| String::from_utf8_lossy(e).to_string()).collect()
}

// ------------------------------------------------------------------------------------------------
// strings, their words and the memoised reference encoding
// ------------------------------------------------------------------------------------------------

pub struct Strs {
    pub all: Vec<String>,
    /// count_upto[l] = number of strings with at most l symbols (they are a prefix of `all`)
    pub count_upto: Vec<usize>,
    /// the distinct words (`refs::bpe_words`) of all strings in order of first appearance
    pub words: Vec<String>,
    /// words_upto[l] = number of distinct words of strings with at most l symbols (a prefix of `words`)
    pub words_upto: Vec<usize>,
    split_off: Vec<u32>,
    split: Vec<u32>,
}

impl Strs {
    pub fn new(max_len: usize) -> Strs {
        Strs::with_alpha(&ALPHA, max_len)
    }

    pub fn with_alpha(alpha: &[&str], max_len: usize) -> Strs {
        let all = strings(alpha, max_len);
        let mut count_upto = vec![0usize; max_len + 1];
        let mut words: Vec<String> = vec![];
        let mut index: HashMap<String, u32> = HashMap::new();
        let mut words_upto = vec![0usize; max_len + 1];
        let mut split_off = vec![0u32];
        let mut split = vec![];
        for s in &all {
            let l = s.chars().count();
            for w in refs::bpe_words(s) {
                let id = *index.entry(w.to_string()).or_insert_with(|| {
                    words.push(w.to_string());
                    (words.len() - 1) as u32
                });
                split.push(id);
            }
            split_off.push(split.len() as u32);
            for k in l..=max_len {
                count_upto[k] += 1;
                words_upto[k] = words.len();
            }
        }
        // shortlex order: every word of a string with <= l symbols appears before any longer string
        for l in 1..=max_len {
            assert!(count_upto[l - 1] <= count_upto[l] && words_upto[l - 1] <= words_upto[l]);
        }
        Strs { all, count_upto, words, words_upto, split_off, split }
    }

    pub fn words_of(&self, i: usize) -> &[u32] {
        &self.split[self.split_off[i] as usize..self.split_off[i + 1] as usize]
    }
}

/// `refs::bpe_encode_word` for the first `n` words of `strs` under one table
pub struct RefEnc {
    words: Vec<(Vec<u32>, usize, usize)>,
}

impl RefEnc {
    pub fn new(table: &[Vec<u8>], strs: &Strs, n_words: usize) -> RefEnc {
        let ids = refs::table_ids(&table.to_vec());
        RefEnc { words: strs.words[..n_words].iter().map(|w| refs::bpe_encode_word(w.as_bytes(), &ids)).collect() }
    }

    /// same composition as `refs::bpe_encode`: concatenation over the words of the string
    pub fn encode_into(&self, strs: &Strs, i: usize, out: &mut Vec<u32>) -> (usize, usize, usize) {
        out.clear();
        let (mut merges, mut depth, mut per_word) = (0, 0, 0);
        for w in strs.words_of(i) {
            let (t, m, d) = &self.words[*w as usize];
            out.extend_from_slice(t);
            merges += m;
            depth = depth.max(*d);
            per_word = per_word.max(*m);
        }
        (merges, depth, per_word)
    }
}

// ------------------------------------------------------------------------------------------------
// tokenizers
// ------------------------------------------------------------------------------------------------

pub struct Built {
    pub tok: BPETokenizer,
    /// the table in the merge file
    pub full: Table,
    /// the table the tokenizer must behave like: `full` cut to what fits into `max_vocab_size`
    /// (256 bytes + merges + special tokens <= max_vocab_size)
    pub eff: Table,
    pub max_vocab_size: Option<usize>,
    pub cfg: usize,
    pub origin: String,
}

pub fn effective_len(n: usize, max_vocab_size: Option<usize>) -> usize {
    match max_vocab_size {
        None => n,
        Some(v) => n.min(v.saturating_sub(256 + NUM_SPECIAL)),
    }
}

pub fn cuts(n: usize) -> Vec<Option<usize>> {
    let mut v = vec![None, Some(0)];
    for k in 0..=n {
        v.push(Some(256 + NUM_SPECIAL + k));
    }
    v.push(Some(256 + NUM_SPECIAL + n + 3));
    // one below the smallest vocabulary (bytes + special tokens) and the "no limit" extreme
    v.push(Some(256 + NUM_SPECIAL - 1));
    v.push(Some(usize::MAX));
    v
}

pub fn special_config(cfg: usize) -> SpecialConfig {
    let (p, s, _) = CONFIGS[cfg];
    SpecialConfig {
        prefix: p.iter().map(|x| x.to_string()).collect(),
        suffix: s.iter().map(|x| x.to_string()).collect(),
        ..SpecialConfig::default()
    }
}

/// builds the tokenizer from the merge file at `path` (which holds `full`)
pub fn build(path: &std::path::Path, full: &Table, max_vocab_size: Option<usize>, cfg: usize, origin: &str) -> Result<Built, String> {
    let config = BPETokenizerConfig { merge_file: path.to_path_buf(), max_vocab_size, use_graphemes: CONFIGS[cfg].2 };
    match catch(|| BPETokenizer::new(config, special_config(cfg))) {
        Err(p) => Err(format!("BPETokenizer::new panicked: {p}")),
        Ok(Err(e)) => Err(format!("BPETokenizer::new failed: {e}")),
        Ok(Ok(tok)) => Ok(Built {
            tok,
            full: full.clone(),
            eff: full[..effective_len(full.len(), max_vocab_size)].to_vec(),
            max_vocab_size,
            cfg,
            origin: origin.to_string(),
        }),
    }
}

pub fn case_json(b: &Built, text: &str, single: Option<u32>) -> Value {
    json!({
        "origin": b.origin,
        "table": b.full,
        "table_lossy": lossy(&b.full),
        "max_vocab_size": b.max_vocab_size,
        "config": b.cfg,
        "prefix": CONFIGS[b.cfg].0,
        "suffix": CONFIGS[b.cfg].1,
        "use_graphemes": CONFIGS[b.cfg].2,
        "text": text,
        "expect_single_token": single,
    })
}

fn table_case_json(origin: &str, full: &Table, max_vocab_size: Option<usize>, cfg: usize) -> Value {
    json!({"origin": origin, "table": full, "table_lossy": lossy(full), "max_vocab_size": max_vocab_size, "config": cfg})
}

/// What the reference model says about one string under one (effective) table.
pub struct Expect<'a> {
    /// reference ids, without prefix / suffix
    pub ids: &'a [u32],
    pub merges: usize,
    pub depth: usize,
    pub per_word: usize,
    /// the string is a training word of the corpus the table was trained on and the replayed
    /// training ends with this word being the single token with this id
    pub single_token: Option<u32>,
}

pub trait Oracle {
    fn check(&mut self, run: &mut Run, b: &Built, text: &str, e: &Expect);
    fn rule(&self) -> &'static str;
}

// ------------------------------------------------------------------------------------------------
// training
// ------------------------------------------------------------------------------------------------

/// Runs the real `train_bpe`; `Ok(table)` only if the result has ids 0..n-1 and is well-formed.
pub fn train(scratch: &Scratch, corpus: &[String], merges: usize) -> Result<Table, String> {
    let f = scratch.path("corpus.txt");
    std::fs::write(&f, corpus.iter().map(|l| format!("{l}\n")).collect::<String>()).expect("cannot write corpus");
    let out = scratch.path("trained.bin");
    let _ = std::fs::remove_file(&out);
    assert!(merges <= 64);
    let r = catch(|| train_bpe(&[f.as_path()], 320, 64 - merges, out.as_path(), None, None, 0, false));
    quiet_panics(); // train_bpe installs its own hook
    match r {
        Err(p) => Err(format!("train_bpe panicked: {p}")),
        Ok(Err(e)) => Err(format!("train_bpe failed: {e}")),
        Ok(Ok(())) => {
            let ents = refs::load_merge_file(&out)?;
            if ents.iter().enumerate().any(|(i, (id, _))| *id != i as u32) {
                return Err("ids are not 0..n-1".into());
            }
            let table: Table = ents.into_iter().map(|(_, e)| e).collect();
            if !refs::table_well_formed(&table) {
                return Err("table is not well-formed".into());
            }
            Ok(table)
        }
    }
}

/// Replays training on the corpus words: entry i merges, in every word, the adjacent pair whose
/// concatenation it is (the most frequent such pair; `None` if two different pairs with the same
/// concatenation and the same frequency exist, or if some entry is no pair of the corpus at all).
/// Returns the final segmentation of every corpus word.
pub fn training_segmentation(words: &BTreeMap<String, usize>, table: &Table) -> Option<Vec<(String, Vec<Vec<u8>>)>> {
    let mut corpus: Vec<(String, Vec<Vec<u8>>, usize)> =
        words.iter().map(|(w, c)| (w.clone(), w.bytes().map(|b| vec![b]).collect(), *c)).collect();
    for e in table {
        let mut freq: BTreeMap<(Vec<u8>, Vec<u8>), usize> = BTreeMap::new();
        for (_, w, c) in &corpus {
            for k in 1..w.len() {
                if [w[k - 1].as_slice(), w[k].as_slice()].concat() == *e {
                    *freq.entry((w[k - 1].clone(), w[k].clone())).or_insert(0) += c;
                }
            }
        }
        let mx = freq.values().copied().max()?;
        let best: Vec<&(Vec<u8>, Vec<u8>)> = freq.iter().filter(|(_, f)| **f == mx).map(|(p, _)| p).collect();
        if best.len() != 1 {
            return None;
        }
        let (a, b) = best[0].clone();
        for w in corpus.iter_mut() {
            w.1 = refs::merge_pair_in_word(&w.1, &a, &b);
        }
    }
    Some(corpus.into_iter().map(|(s, w, _)| (s, w)).collect())
}

// ------------------------------------------------------------------------------------------------
// known defect class D1 (used only to LABEL violations, never to suppress them)
// ------------------------------------------------------------------------------------------------

/// Model of the defect described in DESIGN 8/D1 for one word: only merges of two single bytes are
/// ever applied (in canonical order: lowest id, leftmost), merges that involve an already merged
/// token never are, and the word is abandoned after the first applied merge whose result forms no
/// table entry with its left or right neighbour.
pub fn d1_model_word(word: &[u8], ids: &HashMap<Vec<u8>, u32>) -> Vec<u32> {
    let mut toks: Vec<Option<(Vec<u8>, u32)>> = word.iter().map(|b| Some((vec![*b], *b as u32))).collect();
    let mut touched = vec![false; word.len()];
    let mut cands: Vec<(u32, usize)> =
        (0..word.len().saturating_sub(1)).filter_map(|i| ids.get(&word[i..i + 2]).map(|id| (*id, i))).collect();
    cands.sort();
    for (id, i) in cands {
        if touched[i] || touched[i + 1] {
            continue;
        }
        let merged = word[i..i + 2].to_vec();
        let prev = toks[..i].iter().rev().flatten().next();
        let next = toks[i + 2..].iter().flatten().next();
        let goes_on = prev.map(|p| ids.contains_key(&[p.0.as_slice(), &merged].concat())).unwrap_or(false)
            || next.map(|q| ids.contains_key(&[merged.as_slice(), &q.0].concat())).unwrap_or(false);
        toks[i] = Some((merged, 256 + id));
        toks[i + 1] = None;
        touched[i] = true;
        touched[i + 1] = true;
        if !goes_on {
            break;
        }
    }
    toks.into_iter().flatten().map(|t| t.1).collect()
}

pub fn d1_model(text: &str, table: &Table) -> Vec<u32> {
    let ids = refs::table_ids(table);
    refs::bpe_words(text).into_iter().flat_map(|w| d1_model_word(w.as_bytes(), &ids)).collect()
}

// ------------------------------------------------------------------------------------------------
// driver
// ------------------------------------------------------------------------------------------------

fn parse_table(v: &Value) -> Table {
    v.as_array()
        .expect("table")
        .iter()
        .map(|e| e.as_array().expect("entry").iter().map(|b| b.as_u64().expect("byte") as u8).collect())
        .collect()
}

fn replay(run: &mut Run, oracle: &mut impl Oracle, c: &Value) {
    let scratch = Scratch::new(&format!("{}_replay", run.id));
    let full = parse_table(&c["table"]);
    let mv = c["max_vocab_size"].as_u64().map(|v| v as usize);
    let cfg = c["config"].as_u64().unwrap_or(0) as usize;
    let origin = c["origin"].as_str().unwrap_or("replay").to_string();
    let path = scratch.path("m.bin");
    refs::write_merge_file(&path, &full);
    match build(&path, &full, mv, cfg, &origin) {
        Err(e) => run.violation("construct-ok", "", table_case_json(&origin, &full, mv, cfg), e),
        Ok(b) => {
            if let Some(text) = c["text"].as_str() {
                let (ids, merges, depth, per_word) = refs::bpe_encode(text, &refs::table_ids(&b.eff));
                let single = c["expect_single_token"].as_u64().map(|v| v as u32);
                run.evaluations += 1;
                oracle.check(run, &b, text, &Expect { ids: &ids, merges, depth, per_word, single_token: single });
            }
        }
    }
    drop(scratch);
}

fn run_strings(run: &mut Run, oracle: &mut impl Oracle, b: &Built, strs: &Strs, max_len: usize, buf: &mut Vec<u32>) {
    let enc = RefEnc::new(&b.eff, strs, strs.words_upto[max_len]);
    for i in 0..strs.count_upto[max_len] {
        let (merges, depth, per_word) = enc.encode_into(strs, i, buf);
        run.evaluations += 1;
        oracle.check(run, b, &strs.all[i], &Expect { ids: buf, merges, depth, per_word, single_token: None });
    }
    run.tick();
}

fn run_table(
    run: &mut Run,
    oracle: &mut impl Oracle,
    scratch: &Scratch,
    sp: &Space,
    job: &Job,
    strs: &Strs,
    ws_strs: &Strs,
    origin: &str,
    full: &Table,
    corpus: Option<&[String]>,
    buf: &mut Vec<u32>,
) {
    let path = scratch.path("m.bin");
    refs::write_merge_file(&path, full);
    run.count(&format!("tables-with-{}-entries", full.len()));
    for (j, mv) in cuts(full.len()).into_iter().enumerate() {
        for cfg in 0..CONFIGS.len() {
            let main = mv.is_none() && cfg == 0;
            if !job.full_product && !main && cfg != j % CONFIGS.len() {
                continue;
            }
            run.count_n("tokenizers-built", 1);
            run.calls += 1;
            let b = match build(&path, full, mv, cfg, origin) {
                Ok(b) => b,
                Err(e) => {
                    run.violation("construct-ok", "", table_case_json(origin, full, mv, cfg), e);
                    continue;
                }
            };
            let max_len = if main { job.main_len } else { sp.len_product };
            run_strings(run, oracle, &b, strs, max_len, buf);
            if main && (origin.starts_with("F3") || full.len() <= 1) {
                run_strings(run, oracle, &b, ws_strs, WS_MAX_LEN, buf);
                // texts that spell special tokens (plain text here: they are ignored on both sides),
                // with whitespace in front of them, behind them and between them
                static SP: std::sync::OnceLock<Strs> = std::sync::OnceLock::new();
                let sp_strs = SP.get_or_init(|| Strs::with_alpha(&SPECIAL_TEXT_ALPHA, SPECIAL_TEXT_MAX_LEN));
                run_strings(run, oracle, &b, sp_strs, SPECIAL_TEXT_MAX_LEN, buf);
            }
            // long words: lengths around the powers of two a size threshold would sit at
            if main && origin.starts_with("F3") {
                let ids = refs::table_ids(&b.eff);
                for text in long_texts(run.quick()) {
                    let (rids, merges, depth, per_word) = refs::bpe_encode(&text, &ids);
                    run.evaluations += 1;
                    run.count("long-text cases");
                    oracle.check(run, &b, &text, &Expect { ids: &rids, merges, depth, per_word, single_token: None });
                    run.tick(); // a 4 KiB word costs the reference encoder a noticeable fraction of a second
                }
            }
            // trained tables: the training words themselves
            if let (true, Some(lines)) = (main, corpus) {
                let words = refs::bpe_corpus_words(&lines.to_vec());
                let greedy = refs::bpe_replay_training(&words, full).is_ok();
                let seg = if greedy { training_segmentation(&words, full) } else { None };
                if seg.is_none() {
                    run.count("trained-table-replay-ambiguous-or-not-greedy(single-token-clause-skipped)");
                }
                let ids = refs::table_ids(full);
                for (w, _) in &words {
                    let single = seg.as_ref().and_then(|s| {
                        let toks = &s.iter().find(|(x, _)| x == w).unwrap().1;
                        if toks.len() == 1 {
                            full.iter().position(|e| *e == toks[0]).map(|i| 256 + i as u32)
                        } else {
                            None
                        }
                    });
                    let (rids, merges, depth, per_word) = refs::bpe_encode(w, &ids);
                    let single = match single {
                        Some(id) if rids != [id] => {
                            // the two sentences of the statement disagree for this word; weakest
                            // reading: the single-token clause is not asserted (reported in hist)
                            run.count("training-word-where-reference-and-training-replay-disagree");
                            None
                        }
                        s => s,
                    };
                    if single.is_some() {
                        run.count("training-words-with-complete-chain");
                    }
                    run.evaluations += 1;
                    oracle.check(run, &b, w, &Expect { ids: &rids, merges, depth, per_word, single_token: single });
                }
            }
        }
    }
}

pub fn drive(id: &'static str, mut oracle: impl Oracle) -> ! {
    let mut run = Run::from_env(id);
    if let Some(c) = run.replay_case() {
        replay(&mut run, &mut oracle, &c);
        run.finish();
    }
    let sp = space(&run);
    if let Some(n) = run.describe_unit() {
        let (a, z) = sp.units.get(n as usize).copied().unwrap_or((0, 0));
        let jobs: Vec<Value> = sp.jobs[a..z]
            .iter()
            .map(|j| match &j.kind {
                Kind::Table { family, table } => json!({"family": family, "table_lossy": lossy(table), "table": table, "main_max_symbols": j.main_len, "full_product": j.full_product}),
                Kind::Train { corpus, merges } => json!({"family": "F4-trained", "corpus": corpus, "merges": merges, "main_max_symbols": j.main_len, "full_product": j.full_product}),
            })
            .collect();
        println!("{}", json!({"unit": n, "jobs": jobs, "each": "every max_vocab_size cut x prefix/suffix config x all strings up to the length bounds"}));
        std::process::exit(0);
    }
    let strs = Strs::new(sp.max_len);
    let ws_strs = Strs::with_alpha(&WS_ALPHA, WS_MAX_LEN);
    let abcde_strs = Strs::with_alpha(&["a", "b", "c", "d", "e"], 5);
    run.bounds.insert("string_alphabet".into(), json!(ALPHA));
    run.bounds.insert("special_token_text_string_set".into(), json!(format!("all strings over {SPECIAL_TEXT_ALPHA:?} up to {SPECIAL_TEXT_MAX_LEN} symbols, on the hand tables and the exhaustive tables with <= 1 entry (main configuration)")));
    run.bounds.insert("white_space_string_set".into(), json!(format!("all strings over {WS_ALPHA:?} up to {WS_MAX_LEN} symbols, on the hand tables and the exhaustive tables with <= 1 entry (main configuration)")));
    run.bounds.insert("tables".into(), json!(sp.counts));
    run.bounds.insert("jobs".into(), json!(sp.jobs.len()));
    run.bounds.insert("units".into(), json!(sp.units.len()));
    run.bounds.insert(
        "main_run".into(),
        json!({
            "what": "max_vocab_size None, no prefix/suffix, all strings up to the per-family bound",
            "max_symbols_per_family": sp.lens,
            "strings_by_max_symbols": (0..=sp.max_len).map(|l| (l.to_string(), strs.count_upto[l])).collect::<BTreeMap<String, usize>>(),
        }),
    );
    run.bounds.insert(
        "product_run".into(),
        json!({
            "what": "max_vocab_size in {None, 0, 260+k for k in 0..=n, 260+n+3, 259, usize::MAX} x configs, all strings; full product for F1 tables with <= 2 entries, hand and trained tables; for F1 3-entry and F2 tables limit number j is combined with config j mod 3 only",
            "configs": CONFIGS.iter().map(|(p, s, g)| json!({"prefix": p, "suffix": s, "use_graphemes": g})).collect::<Vec<_>>(),
            "max_symbols": sp.len_product,
            "strings": strs.count_upto[sp.len_product],
        }),
    );
    run.bounds.insert("train_merges".into(), json!(TRAIN_MERGES));
    run.extra.insert("rule".into(), json!(oracle.rule()));
    run.assumptions.push("the reference encoder refs::bpe_encode_word / refs::bpe_words (written from the statement) is memoised per distinct word of the string set; composition as in refs::bpe_encode".into());
    run.assumptions.push("train_bpe breaks frequency ties by HashMap iteration order, so the table obtained for a (corpus, merges) unit may differ between runs (every tie-break is a legitimate member of the space; a stored case carries its table, so replay is deterministic)".into());
    run.assumptions.push("tables from train_bpe are used only if they have ids 0..n-1 and pass refs::table_well_formed (the properties are conditional on well-formedness; a malformed trained table is C19's alarm)".into());
    let scratch = Scratch::new(&id.to_lowercase());
    let mut buf: Vec<u32> = vec![];
    for (u, (a, z)) in sp.units.iter().enumerate() {
        if !run.unit(u as u64) {
            continue;
        }
        if run.out_of_time() {
            break;
        }
        for j in &sp.jobs[*a..*z] {
            match &j.kind {
                Kind::Table { family, table } => run_table(&mut run, &mut oracle, &scratch, &sp, j, if family.starts_with("F5") { &abcde_strs } else { &strs }, &ws_strs, family, table, None, &mut buf),
                Kind::Train { corpus, merges } => {
                    run.calls += 1;
                    match train(&scratch, corpus, *merges) {
                        Err(e) => {
                            run.count("trainings-skipped");
                            run.count(&format!("trainings-skipped: {}", e.split(':').next().unwrap_or("")));
                        }
                        Ok(table) => {
                            run.count("trainings-used");
                            let origin = format!("F4-trained corpus={corpus:?} merges={merges}");
                            run_table(&mut run, &mut oracle, &scratch, &sp, j, &strs, &ws_strs, &origin, &table, Some(corpus), &mut buf);
                        }
                    }
                }
            }
            run.tick();
        }
    }
    drop(scratch);
    run.finish();
}
