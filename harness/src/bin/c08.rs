//! C08 — the training item stream is reproducible, shardable and resumable.
//! Engine A: exhaustive grid over (files, strategy, seed, epoch, pipeline, threads, buffer, batching,
//! skip, limit, world, rank, fast-forward) on the real private `TrainLoader` (through the
//! `verif_api` driver, threads free-running), every loader compared with the single-process
//! reference stream. Engine B: the same object graph (Pipe workers + buffer thread + consumer) under
//! the controlled scheduler, all interleavings up to a preemption bound and explicit-state search.
use serde_json::{json, Value};
use std::collections::BTreeSet;
use std::sync::{Arc, Mutex};
use text_utils::data::loading::{BatchLimitType, GenerationStrategy, ItemSize};
use text_utils::data::postprocessing::PostprocessingFnConfig;
use text_utils::data::preprocessing::{Part, PreprocessingFnConfig, SpellingCorruptionMode};
use text_utils::data::task::TrainTaskConfig;
use text_utils::data::verif_api::{train_loader, TrainLoaderConfig};
use text_utils::data::{PostprocessingConfig, PreprocessingConfig, TrainPipelineConfig, TrainTaskInput};
use text_utils::tokenization::{ByteGroups, ByteTokenizerConfig, GroupAggregation, SpecialConfig, TokenizeConfig, TokenizerConfig};
use text_utils::verif::ThreadKind;
use tu_verif::guard::{catch, quiet_panics};
use tu_verif::refs::Scratch;
use tu_verif::run::Run;
use tu_verif::sched::{self, Config, Exec, Halt};

/// (every line has one long word: several character edits can land in one word)
const WORDS: [&str; 5] = ["ab cd e abcdefghij", "fg h ij klmnopqrst", "kl mn uvwxyzabcd", "o pq rs t efghijklmn", "uv w opqrstuvwx"];
const NUM_PIPELINES: usize = 6;

/// (target, input, everything the task produced, item size)
type Item = (String, String, Vec<i64>, usize);

#[derive(Clone, Debug)]
struct Cfg {
    files: Vec<String>,
    strat: usize,
    threads: u8,
    buf: usize,
    bl: usize,
    blt: usize,
    shuffle: bool,
    pf: usize,
    sort: bool,
    seed: u64,
    skip: usize,
    limit: Option<usize>,
    dist: Option<(usize, usize)>,
    epoch: usize,
    ff: usize,
    pre: usize,
}

fn strategy(i: usize) -> GenerationStrategy {
    [GenerationStrategy::Sequential, GenerationStrategy::Interleaved, GenerationStrategy::Weighted][i]
}
const STRAT_NAMES: [&str; 3] = ["sequential", "interleaved", "weighted"];

fn byte_tok() -> TokenizerConfig {
    TokenizerConfig {
        tokenize: TokenizeConfig::Byte(ByteTokenizerConfig { use_graphemes: true, pad_to_multiple_of: None, groups: ByteGroups::Bytes, aggregation: GroupAggregation::Mean }),
        special: SpecialConfig::default(),
    }
}

fn pipeline(pre: usize, nfiles: usize) -> TrainPipelineConfig {
    let ws = || PreprocessingFnConfig::WhitespaceCorruption(Part::Input, 0.4, 0.4, true);
    let wsc_task = || TrainTaskConfig::WhitespaceCorrection(true, byte_tok());
    let none_post = || PostprocessingConfig::Global(PostprocessingFnConfig::None);
    match pre {
        0 => TrainPipelineConfig { preprocessing: PreprocessingConfig::Global(PreprocessingFnConfig::None), task: wsc_task(), postprocessing: none_post() },
        1 => TrainPipelineConfig { preprocessing: PreprocessingConfig::Global(ws()), task: wsc_task(), postprocessing: none_post() },
        2 => TrainPipelineConfig {
            preprocessing: PreprocessingConfig::Global(PreprocessingFnConfig::Switch(vec![ws(), PreprocessingFnConfig::NoWhitespaces(Part::Input, true)], vec![0.5, 0.5])),
            task: wsc_task(),
            postprocessing: none_post(),
        },
        3 => TrainPipelineConfig {
            preprocessing: PreprocessingConfig::Global(PreprocessingFnConfig::SpellingCorruption(Part::Input, 0.8, true, SpellingCorruptionMode::Artificial(0.3, 2.0, None))),
            task: TrainTaskConfig::ConditionalGeneration(byte_tok(), true, byte_tok(), true),
            postprocessing: PostprocessingConfig::Global(PostprocessingFnConfig::TokenMasking(byte_tok(), 0.3, 1, 0.5, "<unk>".to_string())),
        },
        5 => TrainPipelineConfig {
            // heavy spelling corruption: every word, most characters -- chains of edits inside one word
            preprocessing: PreprocessingConfig::Global(PreprocessingFnConfig::SpellingCorruption(Part::Input, 1.0, true, SpellingCorruptionMode::Artificial(0.9, 2.0, None))),
            // (the whitespace-correction task refuses inputs whose letters differ from the target's)
            task: TrainTaskConfig::ConditionalGeneration(byte_tok(), true, byte_tok(), true),
            postprocessing: none_post(),
        },
        _ => TrainPipelineConfig {
            // a different preprocessing per source file: the source tag must travel with the item
            preprocessing: PreprocessingConfig::PerSource((0..nfiles).map(|i| [PreprocessingFnConfig::None, ws(), PreprocessingFnConfig::NoWhitespaces(Part::Input, true)][i % 3].clone()).collect()),
            task: wsc_task(),
            postprocessing: none_post(),
        },
    }
}

fn flatten(t: &TrainTaskInput) -> Vec<i64> {
    let mut v = vec![];
    match t {
        TrainTaskInput::Classification { token_ids, pad_token_id, label } => {
            v.push(0);
            v.extend(token_ids.iter().map(|x| *x as i64));
            v.push(-7);
            v.push(*pad_token_id as i64);
            v.push(*label as i64);
        }
        TrainTaskInput::SequenceClassification { token_ids, pad_token_id, labels } => {
            v.push(1);
            v.extend(token_ids.iter().map(|x| *x as i64));
            v.push(-7);
            v.push(*pad_token_id as i64);
            v.extend(labels.iter().map(|x| *x as i64));
        }
        TrainTaskInput::Generation { token_ids, pad_token_id, labels } => {
            v.push(2);
            v.extend(token_ids.iter().map(|x| *x as i64));
            v.push(-7);
            v.push(*pad_token_id as i64);
            v.extend(labels.iter().map(|x| *x as i64));
        }
        TrainTaskInput::ConditionalGeneration { token_ids, pad_token_id, target_token_ids, target_pad_token_id, labels } => {
            v.push(3);
            v.extend(token_ids.iter().map(|x| *x as i64));
            v.push(-7);
            v.push(*pad_token_id as i64);
            v.extend(target_token_ids.iter().map(|x| *x as i64));
            v.push(-7);
            v.push(*target_pad_token_id as i64);
            v.extend(labels.iter().map(|x| *x as i64));
        }
    }
    v
}

fn loader_cfg(c: &Cfg) -> TrainLoaderConfig {
    TrainLoaderConfig {
        files: c.files.clone(),
        pipeline: pipeline(c.pre, c.files.len()),
        strategy: strategy(c.strat),
        num_threads: c.threads,
        buffer_size: c.buf,
        batch_limit: c.bl,
        batch_limit_type: if c.blt == 0 { BatchLimitType::BatchSize } else { BatchLimitType::PaddedItemSize },
        max_length: 512,
        shuffle: c.shuffle,
        prefetch_factor: c.pf,
        sort: c.sort,
        seed: Some(c.seed),
        skip: c.skip,
        limit: c.limit,
        distributed: c.dist,
        epoch: c.epoch,
        fast_forward: c.ff,
    }
}

fn drain(c: &Cfg, max_batches: usize) -> Result<Vec<Vec<Item>>, String> {
    let r = catch(|| -> anyhow::Result<Vec<Vec<Item>>> {
        let mut l = train_loader(loader_cfg(c))?;
        quiet_panics(); // Pipe::new installs a process-exit panic hook
        let mut out = vec![];
        while let Some(b) = l.next_batch()? {
            out.push(b.iter().map(|it| (it.data.verif_target().to_string(), it.data.verif_input().to_string(), flatten(&it.input), it.size())).collect());
            if out.len() > max_batches {
                anyhow::bail!("more than {max_batches} batches");
            }
        }
        Ok(out)
    });
    quiet_panics();
    match r {
        Ok(Ok(v)) => Ok(v),
        Ok(Err(e)) => Err(format!("error: {e}")),
        Err(p) => Err(format!("panic: {p}")),
    }
}

fn greedy_chunks(items: &[Item], bl: usize, blt: usize) -> Vec<Vec<Item>> {
    let bl = bl.max(1);
    let mut out: Vec<Vec<Item>> = vec![];
    let mut cur: Vec<Item> = vec![];
    for it in items {
        let fits = if cur.is_empty() {
            true
        } else if blt == 0 {
            cur.len() + 1 <= bl
        } else {
            (cur.len() + 1) * cur.iter().map(|x| x.3).chain([it.3]).max().unwrap() <= bl
        };
        if !fits {
            out.push(std::mem::take(&mut cur));
        }
        cur.push(it.clone());
    }
    if !cur.is_empty() {
        out.push(cur);
    }
    out
}

#[derive(Clone, Debug)]
struct UnitDesc {
    lens: Vec<usize>,
    /// unreadable lines: (file, position among the file's valid lines before which the line stands)
    bad: Vec<(usize, usize)>,
    strat: usize,
    seed: u64,
    epoch: usize,
    pre: usize,
}

impl UnitDesc {
    fn json(&self) -> Value {
        json!({"file_lengths": self.lens, "unreadable_lines": self.bad, "strategy": STRAT_NAMES[self.strat], "seed": self.seed, "epoch": self.epoch, "pipeline": self.pre})
    }
    fn from_json(v: &Value) -> UnitDesc {
        UnitDesc {
            lens: v["file_lengths"].as_array().unwrap().iter().map(|x| x.as_u64().unwrap() as usize).collect(),
            bad: v["unreadable_lines"].as_array().map(|a| a.iter().map(|p| (p[0].as_u64().unwrap() as usize, p[1].as_u64().unwrap() as usize)).collect()).unwrap_or_default(),
            strat: STRAT_NAMES.iter().position(|s| *s == v["strategy"].as_str().unwrap()).unwrap(),
            seed: v["seed"].as_u64().unwrap(),
            epoch: v["epoch"].as_u64().unwrap() as usize,
            pre: v["pipeline"].as_u64().unwrap() as usize,
        }
    }
}

fn write_files(scratch: &Scratch, tag: &str, lens: &[usize], bad: &[(usize, usize)]) -> Vec<String> {
    const BAD: [&str; 2] = ["this line is not json\n", "{\"text\": \"a record without an input key\"}\n"];
    lens.iter()
        .enumerate()
        .map(|(i, n)| {
            let p = scratch.path(&format!("{tag}_{i}.jsonl"));
            let mut body = String::new();
            for k in 0..=*n {
                for (j, _) in bad.iter().enumerate().filter(|(_, b)| b.0 == i && b.1 == k) {
                    body.push_str(BAD[j % 2]);
                }
                if k < *n {
                    body.push_str(&format!("{{\"input\": \"s{i}l{k} {}\"}}\n", WORDS[(i + k) % 5]));
                }
            }
            std::fs::write(&p, body).expect("cannot write source file");
            p.to_str().unwrap().to_string()
        })
        .collect()
}

fn names(v: &[Item]) -> Vec<&str> {
    v.iter().map(|x| x.0.split(' ').next().unwrap_or("")).collect()
}

/// where two streams differ: names when the items differ, otherwise the first differing content
fn diff(a: &[Item], b: &[Item]) -> String {
    if names(a) != names(b) {
        return format!("items {:?} vs {:?}", names(a), names(b));
    }
    for (x, y) in a.iter().zip(b) {
        if x != y {
            return format!("same items, but {:?} was processed differently: input {:?} vs {:?}{}", names(&[x.clone()])[0], x.1, y.1, if x.2 != y.2 { " (token ids / labels differ)" } else { "" });
        }
    }
    "identical".to_string()
}

fn check_grid_unit(run: &mut Run, scratch: &Scratch, u: &UnitDesc) {
    let files = write_files(scratch, "g", &u.lens, &u.bad);
    let total: usize = u.lens.iter().sum();
    let quick = run.quick();
    let base = Cfg { files, strat: u.strat, threads: 0, buf: 1, bl: 1, blt: 0, shuffle: false, pf: 1, sort: false, seed: u.seed, skip: 0, limit: None, dist: None, epoch: u.epoch, ff: 0, pre: u.pre };
    let mut loader_runs = 0u64;
    macro_rules! viol {
        ($clause:expr, $cfgjson:expr, $detail:expr) => {
            run.violation($clause, "", json!({"unit": u.json(), "config": $cfgjson}), $detail)
        };
    }
    let cfgjson = |c: &Cfg| json!({"threads": c.threads, "buffer_size": c.buf, "batch_limit": c.bl, "limit_type": if c.blt == 0 { "batch_size" } else { "padded_item_size" }, "sort": c.sort, "shuffle": c.shuffle, "prefetch": c.pf, "skip": c.skip, "limit": c.limit, "distributed": c.dist, "fast_forward": c.ff});
    let max_batches = total + 2;
    // the single-process reference stream R
    let r: Vec<Item> = match drain(&base, max_batches) {
        Ok(b) => b.into_iter().flatten().collect(),
        Err(e) => {
            viol!("reference-stream", cfgjson(&base), format!("single-process loader failed: {e}"));
            return;
        }
    };
    loader_runs += 1;
    if r.len() != total {
        viol!("reference-stream", cfgjson(&base), format!("single-process stream has {} items, the files have {total} lines", r.len()));
        return; // nothing below makes sense without the reference stream
    }
    if r.iter().map(|x| &x.0).collect::<BTreeSet<_>>().len() != r.len() {
        viol!("reference-stream", cfgjson(&base), "an item appears twice in the single-process stream".to_string());
    }
    run.outcome(&(u.lens.clone(), u.strat, u.seed, u.epoch, u.pre, &r));
    if r.iter().any(|x| x.0 != x.1) {
        run.nontrivial += 1;
    }
    // (1) worker count, buffer size and batching never change the stream
    for threads in [0u8, 1, 2, 3] {
        for buf in [0usize, 1, 2] {
            for (bl, blt) in [(1usize, 0usize), (2, 0), (40, 1)] {
                let c = Cfg { threads, buf, bl, blt, ..base.clone() };
                run.evaluations += 1;
                loader_runs += 1;
                match drain(&c, max_batches) {
                    Err(e) => viol!("independent-of-threads-and-buffer", cfgjson(&c), e),
                    Ok(out) => {
                        run.compared += 1;
                        let flat: Vec<Item> = out.iter().flatten().cloned().collect();
                        if flat != r {
                            viol!("independent-of-threads-and-buffer", cfgjson(&c), format!("stream vs single-process stream: {}", diff(&flat, &r)));
                        } else if out != greedy_chunks(&r, bl, blt) {
                            viol!("batches-are-greedy-chunks", cfgjson(&c), format!("batch sizes {:?}", out.iter().map(|b| b.len()).collect::<Vec<_>>()));
                        }
                    }
                }
            }
        }
    }
    // (1b) sorted / shuffled batching: the batch sequence is a function of (files, pipeline, seed,
    // epoch, batching configuration) only -- compared with the loader without workers and with buffer
    // size 1 for every worker count and every buffer size (smaller than, equal to and larger than
    // the prefetch factor)
    for (bl, blt) in [(1usize, 0usize), (2, 0), (40, 1)] {
        for (sort, shuffle) in [(true, false), (false, true), (true, true)] {
            for pf in [1usize, 2] {
                let cref = Cfg { sort, shuffle, pf, bl, blt, ..base.clone() };
                loader_runs += 1;
                let oref = drain(&cref, max_batches);
                if let Ok(o) = &oref {
                    let mut a: Vec<Item> = o.iter().flatten().cloned().collect();
                    a.sort();
                    let mut b = r.clone();
                    b.sort();
                    if a != b {
                        viol!("sorted-shuffled-same-items", cfgjson(&cref), "the multiset of items differs from the single-process stream".to_string());
                    }
                }
                for threads in [0u8, 1, 2, 3] {
                    for buf in [0usize, 1, 2, 3] {
                        if (threads == 0 && buf == 1) || (quick && (threads == 3 || buf == 0) && bl != 2) {
                            continue;
                        }
                        let c2 = Cfg { threads, buf, ..cref.clone() };
                        run.evaluations += 1;
                        loader_runs += 1;
                        match (drain(&c2, max_batches), &oref) {
                            (Ok(o1), Ok(o2)) => {
                                run.compared += 1;
                                if &o1 != o2 {
                                    viol!("sorted-shuffled-batches-independent-of-threads-and-buffer", cfgjson(&c2), format!("{:?} vs no workers, buffer size 1: {:?}", o1.iter().map(|b| names(b).join(",")).collect::<Vec<_>>(), o2.iter().map(|b| names(b).join(",")).collect::<Vec<_>>()));
                                }
                            }
                            (a, b) => viol!("sorted-shuffled-batches-independent-of-threads-and-buffer", cfgjson(&c2), format!("loader failed: {:?} / {:?}", a.err(), b.as_ref().err())),
                        }
                    }
                }
            }
        }
    }
    if !u.bad.is_empty() {
        // files with unreadable lines: skip and limit count lines, so the reference is the
        // single-process loader with the same skip and limit; rank streams must be disjoint, their
        // union must be exactly that stream, and every item identical to its counterpart in R
        for skip in [0usize, 1, 2] {
            for limit in [None, Some(3usize), Some(5)] {
                let single = match drain(&Cfg { skip, limit, ..base.clone() }, max_batches) {
                    Ok(b) => b.into_iter().flatten().collect::<Vec<Item>>(),
                    Err(e) => {
                        viol!("rank-streams", cfgjson(&Cfg { skip, limit, ..base.clone() }), e);
                        continue;
                    }
                };
                loader_runs += 1;
                for w in 2..=3usize {
                    let mut union: Vec<Item> = vec![];
                    let mut seen: BTreeSet<String> = BTreeSet::new();
                    for rank in 0..w {
                        let c = Cfg { skip, limit, dist: Some((rank, w)), threads: (rank % 3) as u8, ..base.clone() };
                        run.evaluations += 1;
                        loader_runs += 1;
                        match drain(&c, max_batches) {
                            Err(e) => viol!("rank-streams", cfgjson(&c), e),
                            Ok(o) => {
                                run.compared += 1;
                                for it in o.iter().flatten() {
                                    if !seen.insert(it.0.clone()) {
                                        viol!("rank-streams-disjoint", cfgjson(&c), format!("item {:?} is produced by two ranks (or twice)", it.0));
                                    }
                                    if r.iter().find(|x| x.0 == it.0).map(|x| x != it).unwrap_or(true) {
                                        viol!("item-processed-identically", cfgjson(&c), format!("item {:?} differs from (or is missing in) the single-process stream", it.0));
                                    }
                                }
                                union.extend(o.into_iter().flatten());
                            }
                        }
                    }
                    let mut us = union.clone();
                    us.sort();
                    let mut es = single.clone();
                    es.sort();
                    if us != es {
                        viol!("rank-union-is-restricted-stream", cfgjson(&Cfg { skip, limit, dist: Some((0, w)), ..base.clone() }), format!("union over {w} ranks vs the single-process stream with the same skip and limit: {}", diff(&us, &es)));
                    }
                }
            }
        }
        run.calls += loader_runs;
        run.sample(|| json!({"unit": u.json(), "loader_runs": loader_runs, "reference_stream": names(&r)}));
        return;
    }
    // (2) sharding, skip, limit; (3) fast-forward
    let skips: &[usize] = &[0, 1, 2];
    let limits: &[Option<usize>] = &[None, Some(2), Some(3), Some(5)];
    for &skip in skips {
        for &limit in limits {
            let lo = skip.min(total);
            let hi = limit.unwrap_or(total).min(total);
            let exp: Vec<Item> = if lo < hi { r[lo..hi].to_vec() } else { vec![] };
            for w in 1..=3usize {
                let mut union: Vec<Item> = vec![];
                let mut seen: BTreeSet<String> = BTreeSet::new();
                let threads = ((skip + w) % 3) as u8; // vary the worker count across the grid
                let c0 = Cfg { skip, limit, threads, ..base.clone() };
                for rank in 0..w {
                    let c = Cfg { dist: Some((rank, w)), ..c0.clone() };
                    run.evaluations += 1;
                    loader_runs += 1;
                    match drain(&c, max_batches) {
                        Err(e) => viol!("rank-streams", cfgjson(&c), e),
                        Ok(o) => {
                            run.compared += 1;
                            for it in o.iter().flatten() {
                                if !seen.insert(it.0.clone()) {
                                    viol!("rank-streams-disjoint", cfgjson(&c), format!("item {:?} is produced by two ranks (or twice)", it.0));
                                }
                                // processed identically whatever the rank / world / offset
                                match r.iter().find(|x| x.0 == it.0) {
                                    Some(x) if x == it => {}
                                    Some(x) => viol!("item-processed-identically", cfgjson(&c), format!("item {:?}: input {:?} here, {:?} in the single-process stream (or token ids / labels differ)", it.0, it.1, x.1)),
                                    None => viol!("rank-union-is-restricted-stream", cfgjson(&c), format!("item {:?} is not in the single-process stream", it.0)),
                                }
                            }
                            union.extend(o.into_iter().flatten());
                        }
                    }
                }
                let mut us = union.clone();
                us.sort();
                let mut es = exp.clone();
                es.sort();
                if us != es {
                    viol!("rank-union-is-restricted-stream", cfgjson(&Cfg { dist: Some((0, w)), ..c0.clone() }), format!("union over {w} ranks vs single-process stream restricted to [skip, limit): {}", diff(&us, &es)));
                }
                if w == 1 && union != exp {
                    viol!("skip-limit-order", cfgjson(&c0), diff(&union, &exp));
                }
                // (3) restart after k items
                for k in 0..=exp.len() {
                    if quick && w == 3 && k % 2 == 1 {
                        continue;
                    }
                    let mut un: Vec<Item> = vec![];
                    for rank in 0..w {
                        let c = Cfg { dist: Some((rank, w)), ff: k, threads: 1, ..c0.clone() };
                        run.evaluations += 1;
                        loader_runs += 1;
                        match drain(&c, max_batches) {
                            Err(e) => viol!("fast-forward", cfgjson(&c), e),
                            Ok(o) => {
                                run.compared += 1;
                                let o: Vec<Item> = o.into_iter().flatten().collect();
                                if w == 1 && o != exp[k..] {
                                    viol!("fast-forward-resumes-in-order", cfgjson(&c), format!("after fast_forward({k}): {}", diff(&o, &exp[k..])));
                                }
                                un.extend(o);
                            }
                        }
                    }
                    let mut uns = un.clone();
                    uns.sort();
                    let mut e: Vec<Item> = exp[k..].to_vec();
                    e.sort();
                    if uns != e {
                        viol!("fast-forward-resumes-with-remaining-items", cfgjson(&Cfg { dist: Some((0, w)), ff: k, ..c0.clone() }), format!("union over {w} ranks after fast_forward({k}) vs the remaining items of the uninterrupted stream: {}", diff(&uns, &e)));
                    }
                }
            }
            // skip = k and limit = k split the data without overlap
            if let Some(k) = limit {
                if skip == 0 {
                    let a = drain(&Cfg { skip: 0, limit: Some(k), ..base.clone() }, max_batches);
                    let b = drain(&Cfg { skip: k, limit: None, ..base.clone() }, max_batches);
                    loader_runs += 2;
                    run.evaluations += 1;
                    if let (Ok(a), Ok(b)) = (a, b) {
                        run.compared += 1;
                        let mut all: Vec<Item> = a.into_iter().flatten().chain(b.into_iter().flatten()).collect();
                        if all != r {
                            all.sort();
                            viol!("skip-and-limit-split-without-overlap", json!({"k": k}), format!("limit={k} stream followed by skip={k} stream: {:?}", names(&all)));
                        }
                    }
                }
            }
        }
    }
    run.calls += loader_runs;
    run.sample(|| json!({"unit": u.json(), "loader_runs": loader_runs, "reference_stream": r.iter().map(|x| json!({"target": x.0, "input": x.1})).collect::<Vec<_>>()}));
}

// ------------------------------------------------------------------------------------------------
// Engine B: the TrainLoader object graph under the controlled scheduler
// ------------------------------------------------------------------------------------------------

#[derive(Clone, Debug)]
struct SchedUnit {
    lens: Vec<usize>,
    strat: usize,
    threads: usize,
    buf: usize,
    bl: usize,
    pre: usize,
    bound: Option<usize>,
}

impl SchedUnit {
    fn json(&self) -> Value {
        json!({"file_lengths": self.lens, "strategy": STRAT_NAMES[self.strat], "threads": self.threads, "buffer_size": self.buf, "batch_limit": self.bl, "pipeline": self.pre, "bound": self.bound})
    }
    fn from_json(v: &Value) -> SchedUnit {
        SchedUnit {
            lens: v["file_lengths"].as_array().unwrap().iter().map(|x| x.as_u64().unwrap() as usize).collect(),
            strat: STRAT_NAMES.iter().position(|s| *s == v["strategy"].as_str().unwrap()).unwrap(),
            threads: v["threads"].as_u64().unwrap() as usize,
            buf: v["buffer_size"].as_u64().unwrap() as usize,
            bl: v["batch_limit"].as_u64().unwrap() as usize,
            pre: v["pipeline"].as_u64().unwrap() as usize,
            bound: v["bound"].as_u64().map(|b| b as usize),
        }
    }
    fn cfg(&self, files: Vec<String>, threads: u8) -> Cfg {
        Cfg { files, strat: self.strat, threads, buf: self.buf, bl: self.bl, blt: 0, shuffle: false, pf: 1, sort: false, seed: 3, skip: 0, limit: None, dist: None, epoch: 0, ff: 0, pre: self.pre }
    }
}

fn sched_exec(c: &Cfg, prefix: &[usize]) -> Exec<Result<Vec<Vec<Item>>, String>> {
    let got: Arc<Mutex<Vec<Vec<Item>>>> = Arc::new(Mutex::new(vec![]));
    let g1 = got.clone();
    let mut threads: Vec<(ThreadKind, usize)> = (0..c.threads as usize).map(|i| (ThreadKind::PipeWorker, i)).collect();
    threads.push((ThreadKind::BufferProducer, 0));
    let cfg = Config {
        threads,
        consumer_controlled: true,
        horizon: 400,
        prefix: prefix.to_vec(),
        state_fn: Some(Box::new(move || {
            use std::hash::{Hash, Hasher};
            let mut h = std::collections::hash_map::DefaultHasher::new();
            g1.lock().unwrap().hash(&mut h);
            vec![h.finish()]
        })),
        monitor: None,
        step_log: None,
        free_receivers: vec![],
    };
    let c = c.clone();
    sched::run(cfg, move |_ctl| {
        let r = (|| -> anyhow::Result<Vec<Vec<Item>>> {
            let mut l = train_loader(loader_cfg(&c))?;
            quiet_panics();
            while let Some(b) = l.next_batch()? {
                let items: Vec<Item> = b.iter().map(|it| (it.data.verif_target().to_string(), it.data.verif_input().to_string(), flatten(&it.input), it.size())).collect();
                got.lock().unwrap().push(items);
                if got.lock().unwrap().len() > 16 {
                    anyhow::bail!("too many batches");
                }
            }
            Ok(got.lock().unwrap().clone())
        })();
        r.map_err(|e| format!("{e}"))
    })
}

fn check_sched_unit(run: &mut Run, scratch: &Scratch, u: &SchedUnit, replay_choices: Option<Vec<usize>>) {
    let files = write_files(scratch, "s", &u.lens, &[]);
    let reference = match drain(&u.cfg(files.clone(), 0), 16) {
        Ok(r) => r,
        Err(e) => {
            run.violation("reference-stream", "", json!({"sched_unit": u.json()}), e);
            return;
        }
    };
    let c = u.cfg(files, u.threads as u8);
    let runp: *mut Run = run;
    let ex = |prefix: &[usize]| {
        unsafe { (*runp).tick() };
        sched_exec(&c, prefix)
    };
    let ck = |x: &Exec<Result<Vec<Vec<Item>>, String>>, _p: &[usize]| -> bool {
        let run = unsafe { &mut *runp };
        run.evaluations += 1;
        run.calls += x.steps.len() as u64;
        run.compared += 1;
        if x.preemptions() > 0 {
            run.nontrivial += 1;
        }
        let case = || json!({"sched_unit": u.json(), "choices": x.choices(), "schedule": x.schedule()});
        run.sample(|| json!({"sched_unit": u.json(), "schedule": x.schedule()}));
        match &x.halt {
            Some(Halt::Divergence(d)) => {
                run.violation("machinery-replay-divergence", "machinery", case(), d.clone());
                return false;
            }
            Some(h) => {
                run.violation("schedule-terminates", "", case(), format!("{h:?}"));
                return false;
            }
            None => {}
        }
        if let Some(p) = &x.body_panic {
            run.violation("no-panic", "", case(), p.clone());
            return false;
        }
        match &x.result {
            Some(Ok(b)) if *b == reference => {}
            Some(Ok(b)) => {
                run.violation("independent-of-schedule", "", case(), format!("batches {:?}, sequential reference {:?}", b.iter().map(|b| names(b).join(",")).collect::<Vec<_>>(), reference.iter().map(|b| names(b).join(",")).collect::<Vec<_>>()));
                return run.num_violations() < 4;
            }
            Some(Err(e)) => {
                run.violation("independent-of-schedule", "", case(), format!("loader failed: {e}"));
                return false;
            }
            None => {}
        }
        true
    };
    if let Some(ch) = replay_choices {
        let x = sched_exec(&c, &ch);
        if x.choices() != ch {
            run.violation("machinery-replay-divergence", "machinery", json!({"sched_unit": u.json()}), format!("replayed {:?}", x.choices()));
        }
        ck(&x, &ch);
        return;
    }
    let deadline = run.deadline();
    let stats = match u.bound {
        None => sched::explore_states(deadline, vec![vec![]], 1_000_000, ex, ck),
        Some(b) => sched::explore_bounded(b, deadline, vec![vec![]], ex, ck),
    };
    if stats.out_of_time {
        run.capped = Some(format!("time budget reached in scheduler unit {}", u.json()));
    }
    run.count_n("scheduler:states", stats.states);
    run.count_n("scheduler:transitions", stats.transitions);
    run.count_n(if u.bound.is_some() { "scheduler:bounded executions" } else { "scheduler:explicit-state executions" }, stats.executions);
    let mut per = run.extra.remove("scheduler_units").and_then(|v| v.as_array().cloned()).unwrap_or_default();
    per.push(json!({"unit": u.json(), "executions": stats.executions, "states": stats.states, "transitions": stats.transitions, "max_depth": stats.max_depth, "completed": !stats.stopped_early}));
    run.extra.insert("scheduler_units".into(), json!(per));
}

fn grid_units(quick: bool) -> Vec<UnitDesc> {
    let filesets: Vec<Vec<usize>> = if quick { vec![vec![3], vec![2, 3], vec![0, 2, 1], vec![4, 1]] } else { vec![vec![3], vec![2, 3], vec![0, 2, 1], vec![4, 1], vec![1, 1, 1], vec![2, 2], vec![5], vec![1, 0, 3]] };
    let seeds: Vec<u64> = if quick { vec![0, 7] } else { vec![0, 1, 7] };
    let mut u = vec![];
    for lens in &filesets {
        for strat in 0..3 {
            if strat == 2 && lens.contains(&0) {
                continue; // the weighted strategy refuses empty sources
            }
            for &seed in &seeds {
                for epoch in [0usize, 1] {
                    for pre in 0..NUM_PIPELINES {
                        if quick && pre >= 3 && (seed != 0 || epoch != 0) {
                            continue;
                        }
                        u.push(UnitDesc { lens: lens.clone(), bad: vec![], strat, seed, epoch, pre });
                    }
                }
            }
        }
    }
    // the largest seed: seed + epoch + item index must not leave the seed type
    for strat in 0..3 {
        for pre in [1usize, 3] {
            u.push(UnitDesc { lens: vec![2, 3], bad: vec![], strat, seed: u64::MAX, epoch: 1, pre });
        }
    }
    // file sets with unreadable lines (a header line, a truncated record ...) at the start, in the
    // middle, at a file boundary and at the end
    let bad_sets: Vec<(Vec<usize>, Vec<(usize, usize)>)> = if quick {
        vec![(vec![3], vec![(0, 0)]), (vec![4], vec![(0, 2)]), (vec![2, 2], vec![(0, 2), (1, 0)])]
    } else {
        vec![(vec![3], vec![(0, 0)]), (vec![4], vec![(0, 2)]), (vec![2, 2], vec![(0, 2), (1, 0)]), (vec![3], vec![(0, 1), (0, 1)]), (vec![5], vec![(0, 1), (0, 3)]), (vec![2, 3], vec![(1, 3)]), (vec![1, 1, 2], vec![(0, 0), (2, 1)])]
    };
    for (lens, bad) in bad_sets {
        for strat in 0..3 {
            for pre in [0usize, 1] {
                u.push(UnitDesc { lens: lens.clone(), bad: bad.clone(), strat, seed: 7, epoch: 0, pre });
            }
        }
    }
    u
}

fn sched_units(quick: bool) -> Vec<SchedUnit> {
    let mut u = vec![];
    for strat in [0usize, 1] {
        u.push(SchedUnit { lens: vec![2, 2], strat, threads: 2, buf: 1, bl: 2, pre: 1, bound: Some(if quick { 1 } else { 2 }) });
    }
    u.push(SchedUnit { lens: vec![2, 1], strat: 1, threads: 2, buf: 1, bl: 2, pre: 1, bound: None });
    u.push(SchedUnit { lens: vec![3], strat: 0, threads: 1, buf: 1, bl: 1, pre: 2, bound: None });
    if !quick {
        u.push(SchedUnit { lens: vec![2, 2], strat: 1, threads: 2, buf: 1, bl: 2, pre: 1, bound: None });
        u.push(SchedUnit { lens: vec![2, 1], strat: 0, threads: 2, buf: 2, bl: 1, pre: 3, bound: None });
        u.push(SchedUnit { lens: vec![1, 1, 1], strat: 2, threads: 3, buf: 1, bl: 2, pre: 4, bound: Some(1) });
        u.push(SchedUnit { lens: vec![1, 1, 1], strat: 2, threads: 3, buf: 1, bl: 2, pre: 4, bound: None });
    }
    u
}

fn main() {
    let mut run = Run::from_env("C08");
    let scratch = Scratch::new("c08");
    if let Some(case) = run.replay_case() {
        if case.get("sched_unit").is_some() {
            let u = SchedUnit::from_json(&case["sched_unit"]);
            let ch = case["choices"].as_array().map(|a| a.iter().map(|v| v.as_u64().unwrap() as usize).collect());
            check_sched_unit(&mut run, &scratch, &u, ch.or(Some(vec![])));
        } else {
            check_grid_unit(&mut run, &scratch, &UnitDesc::from_json(&case["unit"]));
        }
        drop(scratch);
        run.finish();
    }
    let gus = grid_units(run.quick());
    let sus = sched_units(run.quick());
    if let Some(n) = run.describe_unit() {
        let n = n as usize;
        if n < sus.len() {
            println!("{}", json!({"scheduler_unit": sus[n].json()}));
        } else {
            println!("{}", json!({"grid_unit": gus[n - sus.len()].json()}));
        }
        return;
    }
    run.bounds.insert("grid_units".into(), json!(gus.len()));
    run.bounds.insert("grid".into(), json!("file sets x {sequential, interleaved, weighted} x seeds x epochs {0,1} x 6 pipelines (none, whitespace corruption, switch, spelling corruption + conditional generation + token masking, per-source preprocessing, heavy spelling corruption); per unit: threads {0..3} x buffer {0,1,2} x 3 batch configs x (plain, sort, shuffle, sort+shuffle), skip {0,1,2} x limit {None,2,3,5} x world 1..3 x every rank x every fast_forward k"));
    run.bounds.insert("scheduler_units".into(), json!(sus.iter().map(|u| u.json()).collect::<Vec<_>>()));
    run.extra.insert("rule".into(), json!("grid: every combination listed under bounds is executed on the real TrainLoader and compared with the single-process reference stream (a case = one loader configuration; a unit is non-trivial when its pipeline actually changed some input); scheduler: every interleaving of consumer, buffer thread and Pipe workers up to the preemption bound / every reachable state, batches compared with the sequential reference (non-trivial = at least one preemption)"));
    run.assumptions.push("seeds, epochs and file contents outside the enumerated sets are not covered; scheduler part: sequentially consistent exploration of the instrumented primitives".into());
    // scheduler units first (they are the long ones), then the grid
    for (i, u) in sus.iter().enumerate() {
        if !run.unit(i as u64) {
            continue;
        }
        check_sched_unit(&mut run, &scratch, u, None);
    }
    for (i, u) in gus.iter().enumerate() {
        if !run.unit((sus.len() + i) as u64) {
            continue;
        }
        if run.out_of_time() {
            break;
        }
        check_grid_unit(&mut run, &scratch, u);
    }
    drop(scratch);
    run.finish();
}
