//! C04 — tokenizer vocabulary maps are mutually consistent bijections.
//! Engine A: every byte / char / BPE tokenizer of a configuration grid (special-token lists with
//! duplicates and extra tokens, pad_to_multiple_of, merge tables x every max_vocab_size) x every id
//! in [0, vocab_size + 8), compared with the layout the statement describes (DESIGN 5/C04).
//!
//! Readings taken (DESIGN 6, weakest reading):
//! * decoding a regular id whose token is not valid UTF-8 may fail (`Err`), it must not panic;
//! * a *regular* id is a byte id, a merge id or a character id; which merges a `max_vocab_size`
//!   keeps is not prescribed beyond "a prefix of the table" (all of it without a limit);
//! * `pad_to_multiple_of = p` is read literally: vocab_size is a multiple of p.
//! Stated domain: special-token spellings have at least two code points and differ from every
//! regular token (otherwise no bijection can exist); checked by a predicate.
use serde_json::{json, Value};
use std::collections::{HashMap, HashSet};
use text_utils::tokenization::{
    BPETokenizer, BPETokenizerConfig, ByteGroups, ByteTokenizer, ByteTokenizerConfig, CharTokenizer,
    CharTokenizerConfig, GroupAggregation, SpecialConfig, Tokenize,
};
use tu_verif::guard::catch;
use tu_verif::refs::{self, Table};
use tu_verif::run::Run;

const MARGIN: u32 = 8;
/// base alphabet of the enumerated merge tables: an ASCII byte and the two bytes of "ä", so that
/// tables contain tokens that are not valid UTF-8 (e.g. [0xA4, 0x61]) next to ones that are
/// ("aa", "ä", "aä")
const BASE: [u8; 3] = [b'a', 0xC3, 0xA4];

// ---------------------------------------------------------------------------------------------
// configurations
// ---------------------------------------------------------------------------------------------

#[derive(Clone, Debug)]
struct Spec {
    tokens: Vec<String>,
    pad: String,
    prefix: Vec<String>,
    suffix: Vec<String>,
}

fn spec(tokens: &[&str], pad: &str, prefix: &[&str], suffix: &[&str]) -> Spec {
    let v = |x: &[&str]| x.iter().map(|s| s.to_string()).collect::<Vec<_>>();
    Spec { tokens: v(tokens), pad: pad.to_string(), prefix: v(prefix), suffix: v(suffix) }
}

fn specs() -> Vec<Spec> {
    vec![
        // the default list
        spec(&["<unk>", "<bos>", "<eos>", "<pad>"], "<pad>", &[], &[]),
        spec(&["<unk>", "<bos>", "<eos>", "<pad>"], "<pad>", &["<bos>"], &["<eos>"]),
        // duplicates
        spec(&["<unk>", "<bos>", "<bos>", "<eos>", "<pad>", "<pad>", "<unk>"], "<pad>", &["<bos>", "<unk>"], &["<eos>", "<pad>"]),
        // extra tokens, one of them not ASCII, pad first
        spec(&["<pad>", "<unk>", "<bos>", "<eos>", "<sep>", "<mask>", "<lang:de>", "<ä€>"], "<pad>", &["<lang:de>", "<bos>"], &["<sep>"]),
        // a configured token spelled like the filler tokens pad_to_multiple_of generates
        spec(&["<unk>", "<bos>", "<eos>", "<pad>", "<extra_token_0>"], "<pad>", &["<bos>", "<extra_token_0>"], &["<eos>"]),
        // special tokens that are a single code point (not a regular token of any tokenizer kind)
        spec(&["<pad>", "\u{fffd}", "<bos>", "\u{b6}"], "<pad>", &["<bos>", "\u{fffd}"], &["\u{b6}"]),
        // the minimum
        spec(&["<pad>"], "<pad>", &[], &[]),
        // duplicates and extra tokens, pad neither first nor last
        spec(&["<a>", "<pad>", "<a>", "<b>", "<pad>", "<b>"], "<pad>", &["<a>"], &["<b>", "<a>"]),
    ]
}

fn spec_json(s: &Spec) -> Value {
    json!({"tokens": s.tokens, "pad": s.pad, "prefix": s.prefix, "suffix": s.suffix})
}

fn strs(v: &Value) -> Vec<String> {
    v.as_array().map(|a| a.iter().map(|x| x.as_str().unwrap_or_default().to_string()).collect()).unwrap_or_default()
}

fn spec_from(v: &Value) -> Spec {
    Spec { tokens: strs(&v["tokens"]), pad: v["pad"].as_str().unwrap().to_string(), prefix: strs(&v["prefix"]), suffix: strs(&v["suffix"]) }
}

fn special_config(s: &Spec) -> SpecialConfig {
    SpecialConfig { pad: s.pad.clone(), tokens: s.tokens.clone(), prefix: s.prefix.clone(), suffix: s.suffix.clone() }
}

#[derive(Clone, Debug)]
enum Kind {
    Byte { graphemes: bool, code_point_groups: bool, pad_to: Option<usize> },
    Char { graphemes: bool, unk: String },
    Bpe { table: Table, max_vocab_size: Option<usize> },
}

fn kind_json(k: &Kind) -> Value {
    match k {
        Kind::Byte { graphemes, code_point_groups, pad_to } => {
            json!({"kind": "byte", "use_graphemes": graphemes, "groups": if *code_point_groups { "code_points" } else { "bytes" }, "pad_to_multiple_of": pad_to})
        }
        Kind::Char { graphemes, unk } => json!({"kind": "char", "use_graphemes": graphemes, "unk_token": unk}),
        Kind::Bpe { table, max_vocab_size } => {
            json!({"kind": "bpe", "table": table, "table_text": table.iter().map(|e| String::from_utf8_lossy(e).to_string()).collect::<Vec<_>>(), "max_vocab_size": max_vocab_size})
        }
    }
}

fn kind_from(v: &Value) -> Kind {
    match v["kind"].as_str().unwrap() {
        "byte" => Kind::Byte {
            graphemes: v["use_graphemes"].as_bool().unwrap(),
            code_point_groups: v["groups"] == "code_points",
            pad_to: v["pad_to_multiple_of"].as_u64().map(|x| x as usize),
        },
        "char" => Kind::Char { graphemes: v["use_graphemes"].as_bool().unwrap(), unk: v["unk_token"].as_str().unwrap().to_string() },
        _ => Kind::Bpe {
            table: v["table"].as_array().unwrap().iter().map(|e| e.as_array().unwrap().iter().map(|b| b.as_u64().unwrap() as u8).collect()).collect(),
            max_vocab_size: v["max_vocab_size"].as_u64().map(|x| x as usize),
        },
    }
}

fn byte_kinds() -> Vec<Kind> {
    let mut out = vec![];
    for pad_to in [None, Some(1usize), Some(128), Some(512)] {
        for graphemes in [false, true] {
            for code_point_groups in [false, true] {
                out.push(Kind::Byte { graphemes, code_point_groups, pad_to });
            }
        }
    }
    out
}

fn char_kinds() -> Vec<Kind> {
    let mut out = vec![];
    for unk in ["<unk>", "<u>"] {
        for graphemes in [false, true] {
            out.push(Kind::Char { graphemes, unk: unk.to_string() });
        }
    }
    out
}

/// All well-formed merge tables over `BASE` with at most `max_entries` entries, shortlex (fewest
/// entries first; candidates in the order first-token x second-token over bytes then earlier entries).
fn tables(max_entries: usize) -> Vec<Table> {
    let mut out: Vec<Table> = vec![vec![]];
    let mut layer: Vec<Table> = vec![vec![]];
    for _ in 0..max_entries {
        let mut next = vec![];
        for t in &layer {
            let tokens: Vec<Vec<u8>> = BASE.iter().map(|b| vec![*b]).chain(t.iter().cloned()).collect();
            let mut cands: Vec<Vec<u8>> = vec![];
            for x in &tokens {
                for y in &tokens {
                    let c = [x.as_slice(), y.as_slice()].concat();
                    if !t.contains(&c) && !cands.contains(&c) {
                        cands.push(c);
                    }
                }
            }
            for c in cands {
                let mut n = t.clone();
                n.push(c);
                next.push(n);
            }
        }
        out.extend(next.iter().cloned());
        layer = next;
    }
    out
}

fn hand_made_tables() -> Vec<Table> {
    let t = |x: &[&[u8]]| x.iter().map(|e| e.to_vec()).collect::<Table>();
    vec![
        // "€" built through a token that is not valid UTF-8
        t(&[&[0x82, 0xAC], &[0xE2, 0x82, 0xAC]]),
        t(&[&[0xE2, 0x82], &[0xE2, 0x82, 0xAC], b" \xE2\x82\xAC"]),
        // a chain of depth 4 with leading spaces
        t(&[b" a", b"ab", b" ab", b"abab", b" abab"]),
        // self-overlapping merges
        t(&[b"aa", b"aaa", b"aaaa", b"aaaaaaaa"]),
        // merges that spell look-alikes of special tokens
        t(&[b"<p", b"d>", b"<pa", b"<pad", b"pa"]),
        // 4-byte character assembled from halves
        t(&[&[0xF0, 0x9F], &[0x98, 0x80], &[0xF0, 0x9F, 0x98, 0x80]]),
    ]
}

// ---------------------------------------------------------------------------------------------
// the check of one tokenizer
// ---------------------------------------------------------------------------------------------

struct Subject {
    tok: Box<dyn Tokenize>,
    unk_id: Option<Result<u32, String>>,
}

fn build(kind: &Kind, sp: &Spec, scratch: &refs::Scratch, merge_file: Option<&std::path::Path>) -> Result<anyhow::Result<Subject>, String> {
    let sc = special_config(sp);
    match kind {
        Kind::Byte { graphemes, code_point_groups, pad_to } => catch(|| {
            let cfg = ByteTokenizerConfig {
                use_graphemes: *graphemes,
                pad_to_multiple_of: *pad_to,
                groups: if *code_point_groups { ByteGroups::CodePoints } else { ByteGroups::Bytes },
                aggregation: GroupAggregation::Mean,
            };
            ByteTokenizer::new(cfg, sc).map(|t| Subject { tok: Box::new(t), unk_id: None })
        }),
        Kind::Char { graphemes, unk } => catch(|| {
            CharTokenizer::new(CharTokenizerConfig { use_graphemes: *graphemes, unk_token: unk.clone() }, sc).map(|t| {
                let unk_id = catch(|| t.unk_token_id());
                Subject { tok: Box::new(t), unk_id: Some(unk_id) }
            })
        }),
        Kind::Bpe { table, max_vocab_size } => {
            let own;
            let file = match merge_file {
                Some(f) => f,
                None => {
                    own = scratch.path("replay_table.bin");
                    refs::write_merge_file(&own, table);
                    &own
                }
            };
            catch(|| {
                BPETokenizer::new(BPETokenizerConfig { merge_file: file.to_path_buf(), max_vocab_size: *max_vocab_size, use_graphemes: false }, sc)
                    .map(|t| Subject { tok: Box::new(t), unk_id: None })
            })
        }
    }
}

fn unique(v: &[String]) -> Vec<String> {
    let mut out: Vec<String> = vec![];
    for s in v {
        if !out.contains(s) {
            out.push(s.clone());
        }
    }
    out
}

/// Domain predicate: the special spellings cannot be confused with regular tokens.
fn in_domain(kind: &Kind, specials: &[String]) -> bool {
    // (a spelling of one character is still in the domain when it is no regular token: more than one
    // byte for the byte and BPE tokenizers, outside ASCII for the character tokenizer)
    specials.iter().all(|s| match kind {
        Kind::Bpe { table, .. } => s.len() >= 2 && !table.iter().any(|e| e == s.as_bytes()),
        Kind::Byte { .. } => s.len() >= 2,
        _ => s.chars().count() >= 2 || !s.is_ascii(),
    })
}

/// `run.violation` with lazily built case / detail: only the first few violations of a clause are
/// stored by `Run`, and a defect in a map shows up at thousands of ids.
fn viol(run: &mut Run, tally: &mut Tally, clause: &str, class: &str, case: impl FnOnce() -> Value, detail: impl FnOnce() -> String) {
    let n = tally.reported.entry(format!("{clause}|{class}")).or_insert(0);
    *n += 1;
    if *n <= 8 {
        run.violation(clause, class, case(), detail());
    } else {
        run.violation(clause, class, Value::Null, String::new());
    }
}

#[derive(Default)]
struct Tally {
    reported: HashMap<String, u64>,
    tokenizers: u64,
    bpe_all: u64,
    bpe_some: u64,
    bpe_none: u64,
    non_utf8_regular: u64,
    decode_err_accepted: u64,
    extra_tokens: u64,
}

fn check(run: &mut Run, tally: &mut Tally, kind: &Kind, sp: &Spec, scratch: &refs::Scratch, merge_file: Option<&std::path::Path>) {
    let case = |id: Option<u32>| json!({"tokenizer": kind_json(kind), "special": spec_json(sp), "id": id});
    let mut specials = unique(&sp.tokens);
    if let Kind::Char { unk, .. } = kind {
        if !specials.contains(unk) {
            specials.push(unk.clone());
        }
    }
    // special tokens spelled like a merge of the table: which id such a spelling maps to is not stated,
    // so the spelling-dependent clauses (distinct entries, token_to_id) are not required for them; the
    // id-indexed clauses (get_vocab has vocab_size entries, id_to_token equals get_vocab, the layout,
    // the special ids) are
    let clash: HashSet<String> = match kind {
        Kind::Bpe { table, .. } => specials.iter().filter(|s| table.iter().any(|e| e == s.as_bytes())).cloned().collect(),
        _ => HashSet::new(),
    };
    let unambiguous: Vec<String> = specials.iter().filter(|s| !clash.contains(*s)).cloned().collect();
    assert!(in_domain(kind, &unambiguous), "configuration outside the stated domain: {kind:?} {sp:?}");
    tally.tokenizers += 1;
    run.calls += 1;
    let sub = match build(kind, sp, scratch, merge_file) {
        Err(p) => {
            run.evaluations += 1;
            return run.violation("no-panic", "", case(None), format!("constructor panicked: {p}"));
        }
        Ok(Err(e)) => {
            run.evaluations += 1;
            return run.violation("tokenizer-builds", "", case(None), format!("constructor failed: {e}"));
        }
        Ok(Ok(s)) => s,
    };
    let tok = sub.tok.as_ref();
    run.calls += 2;
    let vs = match catch(|| tok.vocab_size()) {
        Err(p) => return run.violation("no-panic", "", case(None), format!("vocab_size panicked: {p}")),
        Ok(v) => v,
    };
    let vocab = match catch(|| tok.get_vocab()) {
        Err(p) => return run.violation("no-panic", "", case(None), format!("get_vocab panicked: {p}")),
        Ok(Err(e)) => return run.violation("get-vocab-has-vocab-size-entries", "", case(None), format!("get_vocab failed: {e}")),
        Ok(Ok(v)) => v,
    };
    run.compared += 1;
    if vocab.len() != vs {
        run.violation("get-vocab-has-vocab-size-entries", "", case(None), format!("get_vocab has {} entries, vocab_size is {vs}", vocab.len()));
    }
    // -- the layout the statement describes ------------------------------------------------------
    let mut seen: HashMap<&[u8], usize> = HashMap::new();
    for (id, t) in vocab.iter().enumerate() {
        if let Some(first) = seen.insert(t.as_slice(), id).filter(|_| !std::str::from_utf8(t).map(|x| clash.contains(x)).unwrap_or(false)) {
            run.violation("vocab-entries-distinct", "", case(Some(id as u32)), format!("ids {first} and {id} both have token {:?}", String::from_utf8_lossy(t)));
        }
    }
    // every special token has exactly one id inside the vocabulary
    let mut sid: HashMap<&str, u32> = HashMap::new();
    for s in &specials {
        let at: Vec<usize> = (0..vocab.len()).filter(|i| vocab[*i] == s.as_bytes()).collect();
        if at.len() == 1 || (clash.contains(s) && at.len() == 2) {
            // (a clashing spelling is listed once more when its merge is kept; the special tokens
            // come after the merges)
            sid.insert(s.as_str(), *at.last().unwrap() as u32);
        } else {
            run.violation("special-token-has-one-id", "", case(None), format!("special token {s:?} is listed at ids {at:?}"));
        }
    }
    let special_ids: HashSet<u32> = sid.values().copied().collect();
    // regular ids, and everything else that may be in the vocabulary
    let mut regular: Vec<bool> = vec![false; vocab.len()];
    match kind {
        Kind::Byte { pad_to, .. } => {
            for b in 0..256usize.min(vocab.len()) {
                regular[b] = true;
                if vocab[b] != [b as u8] {
                    run.violation("byte-ids-are-bytes", "", case(Some(b as u32)), format!("token of id {b} is {:?}", vocab[b]));
                }
            }
            let extra = (256..vocab.len()).filter(|i| !special_ids.contains(&(*i as u32))).count();
            tally.extra_tokens += extra as u64;
            match pad_to {
                None => {
                    if vs != 256 + specials.len() {
                        run.violation("vocab-is-bytes-plus-specials", "", case(None), format!("vocab_size {vs}, expected 256 + {} distinct special tokens", specials.len()));
                    }
                }
                Some(p) => {
                    // (a configured token that is spelled like a generated filler token makes the
                    // padded size ambiguous; the statement says nothing about it, so only the lower
                    // bound is required there)
                    let clash = specials.iter().any(|s| s.starts_with("<extra_token_"));
                    if *p == 0 || (!clash && vs % *p != 0) || vs < 256 + specials.len() {
                        run.violation("padded-to-multiple", "", case(None), format!("vocab_size {vs} with {} distinct special tokens is not padded to a multiple of {p}", specials.len()));
                    }
                }
            }
        }
        Kind::Bpe { table, max_vocab_size } => {
            for b in 0..256usize.min(vocab.len()) {
                regular[b] = true;
                if vocab[b] != [b as u8] {
                    run.violation("byte-ids-are-bytes", "", case(Some(b as u32)), format!("token of id {b} is {:?}", vocab[b]));
                }
            }
            // the merges kept: a prefix of the table at ids 256.., all of it without a limit
            match vs.checked_sub(256 + specials.len()) {
                Some(k) if k <= table.len() => {
                    for i in 0..k {
                        if 256 + i < vocab.len() {
                            regular[256 + i] = true;
                            if vocab[256 + i] != table[i] {
                                run.violation("merge-ids-follow-table", "", case(Some(256 + i as u32)), format!("token of id {} is {:?}, merge {i} of the table is {:?}", 256 + i, vocab[256 + i], table[i]));
                            }
                        }
                    }
                    if max_vocab_size.is_none() && k != table.len() {
                        run.violation("vocab-is-bytes-merges-specials", "", case(None), format!("no max_vocab_size, but only {k} of {} merges are in the vocabulary", table.len()));
                    }
                    if k == table.len() {
                        tally.bpe_all += 1;
                    } else if k == 0 {
                        tally.bpe_none += 1;
                    } else {
                        tally.bpe_some += 1;
                    }
                }
                _ => run.violation("vocab-is-bytes-merges-specials", "", case(None), format!("vocab_size {vs} is not 256 + k + {} special tokens for any 0 <= k <= {}", specials.len(), table.len())),
            }
        }
        Kind::Char { .. } => {
            for (id, t) in vocab.iter().enumerate() {
                if special_ids.contains(&(id as u32)) {
                    continue;
                }
                regular[id] = true;
                if std::str::from_utf8(t).map(|s| s.chars().count() != 1).unwrap_or(true) {
                    run.violation("char-ids-are-characters", "", case(Some(id as u32)), format!("token of id {id} is {:?}", String::from_utf8_lossy(t)));
                }
            }
        }
    }
    // -- ids the API reports for pad / unk / prefix / suffix ---------------------------------------
    let inside = |run: &mut Run, what: &str, id: u32| {
        if id as usize >= vs || regular.get(id as usize).copied().unwrap_or(false) {
            run.violation("special-ids-inside-vocab-and-not-regular", "", case(Some(id)), format!("{what} id {id} (vocab_size {vs}) is outside the vocabulary or a regular id"));
        }
    };
    run.calls += 3;
    match catch(|| tok.pad_token_id()) {
        Err(p) => run.violation("no-panic", "", case(None), format!("pad_token_id panicked: {p}")),
        Ok(id) => {
            run.compared += 1;
            inside(run, "pad", id);
            if sid.get(sp.pad.as_str()).map(|x| *x != id).unwrap_or(false) {
                run.violation("pad-id-is-pad-token", "", case(Some(id)), format!("pad_token_id {id}, the vocabulary lists {:?} at {:?}", sp.pad, sid.get(sp.pad.as_str())));
            }
        }
    }
    for (what, names, got) in [("prefix", &sp.prefix, catch(|| tok.prefix_token_ids().to_vec())), ("suffix", &sp.suffix, catch(|| tok.suffix_token_ids().to_vec()))] {
        match got {
            Err(p) => run.violation("no-panic", "", case(None), format!("{what}_token_ids panicked: {p}")),
            Ok(ids) => {
                run.compared += 1;
                for id in &ids {
                    inside(run, what, *id);
                }
                let expect: Vec<Option<u32>> = names.iter().map(|n| sid.get(n.as_str()).copied()).collect();
                if ids.len() != expect.len() || ids.iter().zip(&expect).any(|(a, b)| b.map(|b| b != *a).unwrap_or(false)) {
                    run.violation("prefix-suffix-ids-are-their-tokens", "", case(None), format!("{what}_token_ids {ids:?} for {names:?}, the vocabulary lists them at {expect:?}"));
                }
            }
        }
    }
    if let (Kind::Char { unk, .. }, Some(got)) = (kind, &sub.unk_id) {
        run.calls += 1;
        match got {
            Err(p) => run.violation("no-panic", "", case(None), format!("unk_token_id panicked: {p}")),
            Ok(id) => {
                run.compared += 1;
                inside(run, "unk", *id);
                if sid.get(unk.as_str()).map(|x| x != id).unwrap_or(false) {
                    run.violation("unk-id-is-unk-token", "", case(Some(*id)), format!("unk_token_id {id}, the vocabulary lists {unk:?} at {:?}", sid.get(unk.as_str())));
                }
            }
        }
    }
    // -- every id ------------------------------------------------------------------------------------
    let is_bpe = matches!(kind, Kind::Bpe { .. });
    // Known defect class D11 (computed, never assumed): a BPE tokenizer answers id_to_token(id) for
    // id >= 256 with the token of the regular id `id - 256`.
    let d11 = |id: u32, got: &Option<Vec<u8>>| -> &'static str {
        let shifted = id.checked_sub(256).map(|j| j as usize).filter(|j| regular.get(*j).copied().unwrap_or(false)).and_then(|j| vocab.get(j));
        if is_bpe && id >= 256 && shifted.is_some() && got.as_ref() == shifted {
            "D11-bpe-id-to-token-shifted-by-256"
        } else {
            ""
        }
    };
    for id in 0..vs as u32 + MARGIN {
        run.evaluations += 1;
        let entry = vocab.get(id as usize).filter(|_| (id as usize) < vs);
        let is_regular = regular.get(id as usize).copied().unwrap_or(false);
        if !(is_regular && entry.map(|e| e.len() == 1).unwrap_or(false)) {
            run.nontrivial += 1;
        }
        run.sample(|| case(Some(id)));
        run.calls += 1;
        match catch(|| tok.id_to_token(id)) {
            Err(p) => viol(run, tally, "no-panic", "", || case(Some(id)), || format!("id_to_token panicked: {p}")),
            Ok(t) => {
                run.compared += 1;
                match entry {
                    Some(e) => {
                        if t.as_ref() != Some(e) {
                            viol(run, tally, "id-to-token-equals-get-vocab", d11(id, &t), || case(Some(id)), || {
                                format!("id_to_token({id}) = {:?}, get_vocab()[{id}] = {e:?} ({:?})", t, String::from_utf8_lossy(e))
                            });
                        }
                    }
                    None => {
                        if t.is_some() {
                            viol(run, tally, "id-to-token-none-at-or-above-vocab-size", d11(id, &t), || case(Some(id)), || format!("id_to_token({id}) = {t:?} with vocab_size {vs}"));
                        }
                    }
                }
            }
        }
        let Some(e) = entry else { continue };
        let text = std::str::from_utf8(e).ok();
        if let Some(s) = text.filter(|s| !clash.contains(*s)) {
            run.calls += 1;
            match catch(|| tok.token_to_id(s)) {
                Err(p) => viol(run, tally, "no-panic", "", || case(Some(id)), || format!("token_to_id panicked: {p}")),
                Ok(back) => {
                    run.compared += 1;
                    if back != Some(id) {
                        viol(run, tally, "token-to-id-inverts", "", || case(Some(id)), || format!("token_to_id({s:?}) = {back:?}, the token has id {id}"));
                    }
                }
            }
        }
        if is_regular {
            if text.is_none() {
                tally.non_utf8_regular += 1;
            }
            for ignore_special in [false, true] {
                run.calls += 1;
                match catch(|| tok.de_tokenize(&[id], ignore_special)) {
                    Err(p) => viol(run, tally, "no-panic", "", || case(Some(id)), || format!("de_tokenize([{id}], {ignore_special}) panicked: {p}")),
                    Ok(Ok(s)) => {
                        run.compared += 1;
                        if s.as_bytes() != e.as_slice() {
                            viol(run, tally, "decode-single-regular-id", "", || case(Some(id)), || {
                                format!("de_tokenize([{id}], {ignore_special}) = {s:?}, the token is {:?}", String::from_utf8_lossy(e))
                            });
                        }
                    }
                    Ok(Err(err)) => {
                        run.compared += 1;
                        if text.is_some() {
                            viol(run, tally, "decode-single-regular-id", "", || case(Some(id)), || {
                                format!("de_tokenize([{id}], {ignore_special}) failed ({err}), the token is {:?}", String::from_utf8_lossy(e))
                            });
                        } else {
                            tally.decode_err_accepted += 1; // weakest reading: the token is not a string
                        }
                    }
                }
            }
        }
    }
}

fn main() {
    // decoding a token that is not UTF-8 fails by design (thousands of times per tokenizer); with
    // RUST_BACKTRACE set in the environment every such anyhow error would capture a backtrace
    std::env::set_var("RUST_LIB_BACKTRACE", "0");
    let mut run = Run::from_env("C04");
    let scratch = refs::Scratch::new("c04");
    if let Some(c) = run.replay_case() {
        let mut tally = Tally::default();
        check(&mut run, &mut tally, &kind_from(&c["tokenizer"]), &spec_from(&c["special"]), &scratch, None);
        drop(scratch);
        run.finish();
    }
    let max_entries = run.pick(2, 3);
    let specs = specs();
    let bytes = byte_kinds();
    let chars = char_kinds();
    let mut tabs = tables(max_entries);
    let enumerated = tabs.len();
    tabs.extend(hand_made_tables());
    assert!(tabs.iter().all(refs::table_well_formed));
    // special-token configs combined with merge tables (BPETokenizer::new compiles two regexes, ~0.3 ms):
    // quick: the default list with prefix / suffix, the one with duplicates and the one with extra
    // tokens; thorough: all but the first (which is the second without prefix / suffix)
    let bpe_specs: Vec<usize> = run.pick(vec![1, 2, 3], vec![1, 2, 3, 4, 5]);
    // units: one per (byte kind, spec), then one per (char kind, spec), then one per (merge table, spec)
    let n_byte = (bytes.len() * specs.len()) as u64;
    let n_char = (chars.len() * specs.len()) as u64;
    let n_bpe = (tabs.len() * bpe_specs.len()) as u64;
    let units = n_byte + n_char + n_bpe;
    if let Some(n) = run.describe_unit() {
        let d = if n < n_byte {
            json!({"tokenizer": kind_json(&bytes[n as usize / specs.len()]), "special": spec_json(&specs[n as usize % specs.len()]), "ids": "every id in [0, vocab_size + 8)"})
        } else if n < n_byte + n_char {
            let m = (n - n_byte) as usize;
            json!({"tokenizer": kind_json(&chars[m / specs.len()]), "special": spec_json(&specs[m % specs.len()]), "ids": "every id in [0, vocab_size + 8)"})
        } else if n < units {
            let m = (n - n_byte - n_char) as usize;
            let t = &tabs[m / bpe_specs.len()];
            json!({"tokenizer": kind_json(&Kind::Bpe { table: t.clone(), max_vocab_size: None }), "max_vocab_size": "None and every value from 0 to 256 + entries + listed special tokens + 2",
                   "special": spec_json(&specs[bpe_specs[m % bpe_specs.len()]]), "ids": "every id in [0, vocab_size + 8)"})
        } else {
            json!({"error": "no such unit", "units": units})
        };
        println!("{d}");
        drop(scratch);
        return;
    }
    run.bounds.insert("special_configs".into(), json!(specs.iter().map(spec_json).collect::<Vec<_>>()));
    run.bounds.insert("byte_tokenizers".into(), json!({"count": bytes.len() * specs.len(), "grid": "pad_to_multiple_of {None,1,128,512} x use_graphemes {f,t} x groups {bytes,code_points} x special configs"}));
    run.bounds.insert("char_tokenizers".into(), json!({"count": chars.len() * specs.len(), "grid": "unk_token {<unk>, <u> (not in the list)} x use_graphemes {f,t} x special configs"}));
    run.bounds.insert(
        "bpe_tokenizers".into(),
        json!({"table_base_alphabet_bytes": BASE, "max_table_entries": max_entries, "enumerated_well_formed_tables": enumerated, "hand_made_tables": tabs.len() - enumerated,
               "max_vocab_size": "None, every value in 0..=256+entries+len(tokens)+2, and usize::MAX", "special_configs_used": bpe_specs,
               "grid": "tables x max_vocab_size x special configs (use_graphemes false)"}),
    );
    run.bounds.insert("ids".into(), json!(format!("every id in [0, vocab_size + {MARGIN})")));
    run.bounds.insert("clash_phase".into(), json!("hand-made tables x each valid UTF-8 entry as an extra special token (first or last in the list, also the last suffix token) x max_vocab_size None, 256..=256+entries+tokens+2; the spelling-dependent clauses are not required for the clashing spelling"));
    run.bounds.insert("units".into(), json!(units));
    run.extra.insert(
        "rule".into(),
        json!("every tokenizer of the grid (byte and char configs x special-token configs; every well-formed merge table over the base bytes up to the entry bound, shortlex, plus hand-made tables x every max_vocab_size x special configs) x every id in [0, vocab_size + 8); one evaluation per (tokenizer, id); an id is non-trivial unless it is a regular single-byte / single-ASCII-character id (i.e. it is a merge, multi-byte, special, padding or out-of-range id)"),
    );
    run.assumptions.push("special-token spellings differ from every byte and character token (predicate asserted for every configuration); a special token spelled like a merge is only judged on the id-indexed clauses".into());
    run.assumptions.push("merge files are written by the harness in the format SerializeMsgPack::save produces (trusted)".into());
    let mut tally = Tally::default();
    for unit in 0..units {
        if !run.unit(unit) {
            continue;
        }
        if run.out_of_time() {
            break;
        }
        if unit < n_byte {
            check(&mut run, &mut tally, &bytes[unit as usize / specs.len()], &specs[unit as usize % specs.len()], &scratch, None);
        } else if unit < n_byte + n_char {
            let m = (unit - n_byte) as usize;
            check(&mut run, &mut tally, &chars[m / specs.len()], &specs[m % specs.len()], &scratch, None);
        } else {
            let m = (unit - n_byte - n_char) as usize;
            let (table, sp) = (&tabs[m / bpe_specs.len()], &specs[bpe_specs[m % bpe_specs.len()]]);
            let file = scratch.path(&format!("table_{unit}.bin"));
            refs::write_merge_file(&file, table);
            let top = 256 + table.len() + sp.tokens.len() + 2;
            for max_vocab_size in std::iter::once(None).chain((0..=top).map(Some)).chain(std::iter::once(Some(usize::MAX))) {
                check(&mut run, &mut tally, &Kind::Bpe { table: table.clone(), max_vocab_size }, sp, &scratch, Some(&file));
                if max_vocab_size.unwrap_or(0) % 32 == 0 {
                    run.tick();
                }
            }
            let _ = std::fs::remove_file(&file);
        }
    }
    // special tokens spelled like a merge of the table (each valid UTF-8 entry of the hand-made tables
    // in turn, as an extra token of the default list with prefix / suffix), every max_vocab_size
    {
        let hand = hand_made_tables();
        let mut n_clash = 0u64;
        for (ti, table) in hand.iter().enumerate() {
            if !run.unit(units + ti as u64) {
                continue;
            }
            let file = scratch.path(&format!("clash_table_{ti}.bin"));
            refs::write_merge_file(&file, table);
            for e in table {
                let Ok(tokstr) = std::str::from_utf8(e) else { continue };
                for extra_first in [false, true] {
                    let mut tokens = vec!["<unk>", "<bos>", "<eos>", "<pad>"];
                    if extra_first {
                        tokens.insert(0, tokstr);
                    } else {
                        tokens.push(tokstr);
                    }
                    let sp = spec(&tokens, "<pad>", &["<bos>"], &["<eos>", tokstr]);
                    let top = 256 + table.len() + sp.tokens.len() + 2;
                    for max_vocab_size in std::iter::once(None).chain((256..=top).map(Some)) {
                        n_clash += 1;
                        check(&mut run, &mut tally, &Kind::Bpe { table: table.clone(), max_vocab_size }, &sp, &scratch, Some(&file));
                    }
                }
                run.tick();
            }
            let _ = std::fs::remove_file(&file);
        }
        run.count_n("bpe-tokenizers-with-a-special-token-spelled-like-a-merge", n_clash);
    }
    run.count_n("tokenizers-built", tally.tokenizers);
    run.count_n("bpe-keeps-all-merges", tally.bpe_all);
    run.count_n("bpe-keeps-some-merges", tally.bpe_some);
    run.count_n("bpe-keeps-no-merge-of-a-non-empty-table-or-empty-table", tally.bpe_none);
    run.count_n("regular-ids-whose-token-is-not-utf8", tally.non_utf8_regular);
    run.count_n("decode-of-non-utf8-token-failed-accepted", tally.decode_err_accepted);
    run.count_n("extra-padding-tokens", tally.extra_tokens);
    drop(scratch);
    run.finish();
}
