//! C17 — token groups partition the token sequence; tensorisation is faithful.
//! Engine A, three exhaustively enumerated spaces (DESIGN 5/C17):
//!  A. every string over an alphabet with multi-byte / combining / CRLF / ZWJ symbols and special-token
//!     spellings x every byte tokenizer config: the groups partition the ids, one group per unit;
//!  B. every batch of 1..3 such tokenisations: the sparse aggregation matrix, `padding_mask`, and
//!     the padded id / label matrices of the batch as `Generation` items;
//!  C. every homogeneous batch of synthetic `TrainItem`s with id / label vectors of bounded length,
//!     for each of the four task kinds: `Tensorize` pads faithfully and reports true lengths.
//!
//! Readings taken (DESIGN 6, weakest reading): "one group per character" is checked as group k
//! covering exactly the ids of unit k (prefix token, character, special token, suffix token), the
//! inner structure of a nested group is not prescribed; a padded matrix may be wider than the longest
//! row; mean weights are only required to sum to one per group (1e-6).
//! Stated domain: batches are non-empty and homogeneous (one task kind, one pad id), the special-token
//! set is prefix-free and overlap-free.
use numpy::ndarray::{Array1, Array2};
use serde_json::{json, Value};
use text_utils::data::loading::Tensorize;
use text_utils::data::{TensorizedTrainTaskInput, TrainData, TrainItem, TrainTaskInput};
use text_utils::tokenization::{
    padding_mask, token_groups_to_sparse_coo_matrix, BaseTokenize, ByteGroups, ByteTokenizer, ByteTokenizerConfig, GroupAggregation, Grouping,
    SpecialConfig, TokenGroup, TokenizationInfo, Tokenize,
};
use tu_verif::guard::catch;
use tu_verif::refs;
use tu_verif::run::Run;

const SIGMA: [&str; 9] = ["a", "ä", "😀", "\u{301}", "\r", "\n", "\u{200d}", "<pad>", "<pa"];
const SPECIALS: [&str; 4] = ["<unk>", "<bos>", "<eos>", "<pad>"];
const PAD: &str = "<pad>";

// ---------------------------------------------------------------------------------------------
// enumeration helpers
// ---------------------------------------------------------------------------------------------

fn count_strings(n: usize, max_len: usize) -> u64 {
    (0..=max_len as u32).map(|k| (n as u64).pow(k)).sum()
}

/// the `idx`-th string over `alpha` in shortlex order (same order as `enumerate::strings`)
fn nth_string(alpha: &[&str], mut idx: u64) -> String {
    let n = alpha.len() as u64;
    let (mut len, mut block) = (0usize, 1u64);
    while idx >= block {
        idx -= block;
        block *= n;
        len += 1;
    }
    let mut digits = vec![0usize; len];
    for d in digits.iter_mut().rev() {
        *d = (idx % n) as usize;
        idx /= n;
    }
    digits.iter().map(|d| alpha[*d]).collect()
}

/// all vectors over `values` with at most `max_len` entries, shortlex
fn vectors<T: Copy>(values: &[T], max_len: usize) -> Vec<Vec<T>> {
    tu_verif::enumerate::sequences(values.len(), max_len).into_iter().map(|s| s.into_iter().map(|i| values[i]).collect()).collect()
}

// ---------------------------------------------------------------------------------------------
// reference: units of a text
// ---------------------------------------------------------------------------------------------

/// Reference scanner (same as C01): byte lengths of the units of the text between prefix and suffix —
/// 1 id for a special token spelled at a position (when parsing is on), otherwise one unit per
/// character (code point or grapheme cluster) with as many ids as it has UTF-8 bytes.
fn text_units(s: &str, graphemes: bool, ignore_special: bool) -> Vec<usize> {
    let mut units = vec![];
    let (mut i, mut start) = (0usize, 0usize);
    let flush = |units: &mut Vec<usize>, x: &str| units.extend(refs::chars(x, graphemes).iter().map(|c| c.len()));
    while i < s.len() {
        let sp = if ignore_special { None } else { SPECIALS.iter().find(|sp| s[i..].starts_with(**sp)) };
        if let Some(sp) = sp {
            flush(&mut units, &s[start..i]);
            units.push(1);
            i += sp.len();
            start = i;
        } else {
            i += s[i..].chars().next().map(char::len_utf8).unwrap_or(1);
        }
    }
    flush(&mut units, &s[start..]);
    units
}

fn unambiguous(tokens: &[&str]) -> bool {
    tokens.iter().enumerate().all(|(i, a)| {
        !a.is_empty()
            && tokens.iter().enumerate().all(|(j, b)| (i == j || !b.starts_with(a)) && (1..a.len()).all(|k| !a.is_char_boundary(k) || !b.starts_with(&a[k..])))
    })
}

/// own recursive length of a group (not `TokenGroup::len`)
fn flat_len(g: &TokenGroup) -> usize {
    match g {
        TokenGroup::Empty(n) | TokenGroup::Full(n) => *n,
        TokenGroup::Nested(gs) => gs.iter().map(flat_len).sum(),
    }
}

// ---------------------------------------------------------------------------------------------
// subjects
// ---------------------------------------------------------------------------------------------

#[derive(Clone, Debug)]
struct Cfg {
    graphemes: bool,
    code_point_groups: bool,
    mean: bool,
    prefix: Vec<String>,
    suffix: Vec<String>,
}

fn cfg_json(c: &Cfg) -> Value {
    json!({"use_graphemes": c.graphemes, "groups": if c.code_point_groups { "code_points" } else { "bytes" }, "aggregation": if c.mean { "mean" } else { "sum" },
           "special_tokens": SPECIALS, "pad": PAD, "prefix": c.prefix, "suffix": c.suffix})
}

fn strs(v: &Value) -> Vec<String> {
    v.as_array().map(|a| a.iter().map(|x| x.as_str().unwrap_or_default().to_string()).collect()).unwrap_or_default()
}

fn cfg_from(v: &Value) -> Cfg {
    Cfg {
        graphemes: v["use_graphemes"].as_bool().unwrap(),
        code_point_groups: v["groups"] == "code_points",
        mean: v["aggregation"] == "mean",
        prefix: strs(&v["prefix"]),
        suffix: strs(&v["suffix"]),
    }
}

fn cfgs() -> Vec<Cfg> {
    // including prefix and suffix lists of different lengths
    let affixes: [(&[&str], &[&str]); 4] = [(&[], &[]), (&["<bos>"], &["<eos>"]), (&["<bos>", "<pad>"], &["<eos>"]), (&[], &["<eos>", "<pad>"])];
    let mut out = vec![];
    for mean in [true, false] {
        for graphemes in [false, true] {
            for code_point_groups in [false, true] {
                for (p, s) in affixes {
                    out.push(Cfg {
                        graphemes,
                        code_point_groups,
                        mean,
                        prefix: p.iter().map(|x| x.to_string()).collect(),
                        suffix: s.iter().map(|x| x.to_string()).collect(),
                    });
                }
            }
        }
    }
    out
}

struct Subject {
    cfg: Cfg,
    case_cfg: Value,
    tok: ByteTokenizer,
    pad_id: u32,
}

fn groups_case(cfg: &Value, items: &[(&str, bool)]) -> Value {
    json!({"part": "groups", "config": cfg, "items": items.iter().map(|(s, i)| json!({"s": s, "ignore_special_tokens": i})).collect::<Vec<_>>()})
}

fn build(run: &mut Run, cfg: &Cfg) -> Option<Subject> {
    let case_cfg = cfg_json(cfg);
    let config = ByteTokenizerConfig {
        use_graphemes: cfg.graphemes,
        pad_to_multiple_of: None,
        groups: if cfg.code_point_groups { ByteGroups::CodePoints } else { ByteGroups::Bytes },
        aggregation: if cfg.mean { GroupAggregation::Mean } else { GroupAggregation::Sum },
    };
    let sc = SpecialConfig { pad: PAD.to_string(), tokens: SPECIALS.iter().map(|s| s.to_string()).collect(), prefix: cfg.prefix.clone(), suffix: cfg.suffix.clone() };
    run.calls += 1;
    match catch(|| ByteTokenizer::new(config, sc).map(|t| (t.pad_token_id(), t))) {
        Err(p) => {
            run.violation("no-panic", "", groups_case(&case_cfg, &[]), format!("ByteTokenizer::new panicked: {p}"));
            None
        }
        Ok(Err(e)) => {
            run.violation("tokenizer-builds", "", groups_case(&case_cfg, &[]), format!("ByteTokenizer::new failed: {e}"));
            None
        }
        Ok(Ok((pad_id, tok))) => Some(Subject { cfg: cfg.clone(), case_cfg, tok, pad_id }),
    }
}

/// one tokenisation: ids and its (single) grouping
#[derive(Clone)]
struct Item {
    s: String,
    ign: bool,
    ids: Vec<u32>,
    grouping: Grouping,
}

// ---------------------------------------------------------------------------------------------
// part A: the groups partition the ids
// ---------------------------------------------------------------------------------------------

fn check_tokenisation(run: &mut Run, sub: &Subject, s: &str, ign: bool) -> Option<Item> {
    let case = || groups_case(&sub.case_cfg, &[(s, ign)]);
    run.calls += 1;
    let t = match catch(|| sub.tok.tokenize(s, ign)) {
        Err(p) => {
            run.violation("no-panic", "", case(), format!("tokenize panicked: {p}"));
            return None;
        }
        Ok(Err(e)) => {
            run.violation("tokenize-succeeds", "", case(), format!("tokenize failed: {e}"));
            return None;
        }
        Ok(Ok(t)) => t,
    };
    let ids = t.token_ids;
    let grouping = match t.info {
        TokenizationInfo::TokenGroups(m) if m.len() == 1 => m.into_values().next().unwrap(),
        other => {
            run.violation("byte-tokenizer-returns-one-grouping", "", case(), format!("tokenization info is {other:?}"));
            return None;
        }
    };
    run.compared += 1;
    let (groups, agg) = &grouping;
    let want_agg = if sub.cfg.mean { GroupAggregation::Mean } else { GroupAggregation::Sum };
    if *agg != want_agg {
        run.violation("aggregation-as-configured", "", case(), format!("grouping has aggregation {agg:?}, configured {want_agg:?}"));
    }
    // reference units
    let mut units = vec![1usize; sub.cfg.prefix.len()];
    units.extend(text_units(s, sub.cfg.graphemes, ign));
    units.extend(std::iter::repeat(1).take(sub.cfg.suffix.len()));
    let lens: Vec<usize> = groups.iter().map(flat_len).collect();
    let total: usize = lens.iter().sum();
    if total != ids.len() {
        run.violation("group-lengths-sum-to-number-of-ids", "", case(), format!("group lengths {lens:?} sum to {total}, there are {} ids", ids.len()));
    } else if lens.len() != units.len() {
        run.violation("one-group-per-unit", "", case(), format!("{} groups {groups:?}, reference has {} units {units:?} (prefix, characters / special tokens, suffix)", lens.len(), units.len()));
    } else if lens != units {
        run.violation("group-covers-its-unit", "", case(), format!("group lengths {lens:?}, reference unit lengths {units:?}"));
    }
    // the subject's own length function agrees with the recursive sum
    run.calls += 1;
    match catch(|| groups.iter().map(|g| g.len()).collect::<Vec<_>>()) {
        Err(p) => run.violation("no-panic", "", case(), format!("TokenGroup::len panicked: {p}")),
        Ok(l) => {
            if l != lens {
                run.violation("token-group-len-is-recursive-sum", "", case(), format!("TokenGroup::len gives {l:?}, the nested lengths sum to {lens:?}"));
            }
        }
    }
    Some(Item { s: s.to_string(), ign, ids, grouping })
}

// ---------------------------------------------------------------------------------------------
// part B: sparse aggregation matrix, padding mask, padded ids of a batch of tokenisations
// ---------------------------------------------------------------------------------------------

fn batch_case(sub: &Subject, items: &[&Item]) -> Value {
    // every item names the aggregation of its own grouping (a batch may mix them)
    json!({"part": "groups", "config": sub.case_cfg, "items": items.iter().map(|i| json!({"s": i.s, "ignore_special_tokens": i.ign,
        "aggregation": if matches!(i.grouping.1, GroupAggregation::Mean) { "mean" } else { "sum" }})).collect::<Vec<_>>()})
}

fn check_sparse(run: &mut Run, sub: &Subject, items: &[&Item]) {
    let case = || batch_case(sub, items);
    let groupings: Vec<&Grouping> = items.iter().map(|i| &i.grouping).collect();
    let lengths: Vec<usize> = items.iter().map(|i| i.ids.len()).collect();
    run.calls += 1;
    let m = match catch(|| token_groups_to_sparse_coo_matrix(&groupings, &lengths)) {
        Err(p) => return run.violation("no-panic", "", case(), format!("token_groups_to_sparse_coo_matrix panicked: {p}")),
        Ok(Err(e)) => return run.violation("sparse-matrix-builds", "", case(), format!("token_groups_to_sparse_coo_matrix failed: {e}")),
        Ok(Ok(m)) => m,
    };
    run.compared += 1;
    let (indices, values, size, group_lengths) = m.verif_parts();
    let n: usize = lengths.iter().sum();
    if indices.len() != 3 || indices.iter().any(|r| r.len() != values.len()) || size.len() != 3 {
        return run.violation("sparse-matrix-shape", "", case(), format!("indices have {} rows of lengths {:?}, {} values, size {size:?}", indices.len(), indices.iter().map(|r| r.len()).collect::<Vec<_>>(), values.len()));
    }
    if values.len() != n {
        return run.violation("one-entry-per-token", "", case(), format!("{} entries for {n} tokens", values.len()));
    }
    // expected group of every token
    let group_of: Vec<Vec<usize>> = items
        .iter()
        .map(|it| it.grouping.0.iter().enumerate().flat_map(|(g, grp)| std::iter::repeat(g).take(flat_len(grp))).collect())
        .collect();
    let mut seen: Vec<Vec<bool>> = lengths.iter().map(|l| vec![false; *l]).collect();
    let mut sums: Vec<Vec<f64>> = items.iter().map(|it| vec![0.0; it.grouping.0.len()]).collect();
    for e in 0..n {
        let (b, g, t) = (indices[0][e], indices[1][e], indices[2][e]);
        if b < 0 || g < 0 || t < 0 || b as usize >= size[0] || g as usize >= size[1] || t as usize >= size[2] {
            return run.violation("indices-inside-declared-size", "", case(), format!("entry {e} has indices ({b}, {g}, {t}), declared size {size:?}"));
        }
        let (b, g, t) = (b as usize, g as usize, t as usize);
        if b >= items.len() || t >= lengths[b] || seen[b][t] {
            return run.violation("one-entry-per-token", "", case(), format!("entry {e} addresses (sequence {b}, token {t}) which does not exist or already has an entry; lengths {lengths:?}"));
        }
        seen[b][t] = true;
        if group_of[b].get(t) != Some(&g) {
            return run.violation("entry-is-in-the-group-of-its-token", "", case(), format!("entry {e}: token {t} of sequence {b} is put into group {g}, it belongs to group {:?}", group_of[b].get(t)));
        }
        let v = values[e];
        if !v.is_finite() {
            return run.violation("weights", "", case(), format!("entry {e} has weight {v}"));
        }
        // (the aggregation is a property of each grouping, not of the batch)
        if !matches!(items[b].grouping.1, GroupAggregation::Mean) && v != 1.0 {
            return run.violation("sum-weights-are-one", "", case(), format!("entry {e} (sequence {b}, group {g}, token {t}) has weight {v} under sum aggregation"));
        }
        sums[b][g] += v as f64;
    }
    {
        for (b, row) in sums.iter().enumerate() {
            if !matches!(items[b].grouping.1, GroupAggregation::Mean) {
                continue;
            }
            for (g, w) in row.iter().enumerate() {
                if flat_len(&items[b].grouping.0[g]) > 0 && (w - 1.0).abs() > 1e-6 {
                    return run.violation("mean-weights-sum-to-one", "", case(), format!("weights of sequence {b}, group {g} ({:?}) sum to {w}", items[b].grouping.0[g]));
                }
            }
        }
    }
    let want_gl: Vec<usize> = items.iter().map(|i| i.grouping.0.len()).collect();
    if group_lengths != want_gl {
        run.violation("group-lengths-reported", "", case(), format!("group_lengths {group_lengths:?}, the groupings have {want_gl:?} groups"));
    }
    // padding mask over the groups
    run.calls += 1;
    match catch(|| padding_mask(&group_lengths)) {
        Err(p) => run.violation("no-panic", "", case(), format!("padding_mask panicked: {p}")),
        Ok(mask) => {
            run.compared += 1;
            let width = group_lengths.iter().copied().max().unwrap_or(0);
            let ok = mask.nrows() == group_lengths.len()
                && mask.ncols() >= width
                && group_lengths.iter().enumerate().all(|(b, l)| (0..mask.ncols()).all(|j| mask[[b, j]] == (j < *l)));
            if !ok {
                run.violation("padding-mask-marks-exactly-the-groups", "", case(), format!("padding_mask({group_lengths:?}) = {mask:?}"));
            }
        }
    }
}

/// rows followed only by padding; `Err(description)` otherwise
fn padded_ok<T: Copy + PartialEq + std::fmt::Debug>(what: &str, arr: &Array2<T>, rows: &[&[T]], pad: T) -> Result<(), String> {
    let width = rows.iter().map(|r| r.len()).max().unwrap_or(0);
    if arr.nrows() != rows.len() || arr.ncols() < width {
        return Err(format!("{what} has shape {:?} for {} rows of at most {width} values", arr.dim(), rows.len()));
    }
    for (b, r) in rows.iter().enumerate() {
        for j in 0..arr.ncols() {
            let want = if j < r.len() { r[j] } else { pad };
            if arr[[b, j]] != want {
                return Err(format!("{what}[{b}][{j}] = {:?}, expected {want:?} (row values {r:?}, padding {pad:?}); matrix {arr:?}", arr[[b, j]]));
            }
        }
    }
    Ok(())
}

fn lengths_ok(what: &str, arr: &Array1<usize>, rows: &[&[u32]]) -> Result<(), String> {
    let want: Vec<usize> = rows.iter().map(|r| r.len()).collect();
    if arr.to_vec() != want {
        return Err(format!("{what} = {:?}, true lengths {want:?}", arr.to_vec()));
    }
    Ok(())
}

#[derive(Clone, Debug)]
struct Synth {
    ids: Vec<u32>,
    labels: Vec<i32>,
    target_ids: Vec<u32>,
}

#[derive(Clone, Copy, Debug, PartialEq)]
enum Task {
    Classification,
    SequenceClassification,
    Generation,
    ConditionalGeneration,
}

const TASKS: [Task; 4] = [Task::Classification, Task::SequenceClassification, Task::Generation, Task::ConditionalGeneration];

fn task_name(t: Task) -> &'static str {
    match t {
        Task::Classification => "classification",
        Task::SequenceClassification => "sequence_classification",
        Task::Generation => "generation",
        Task::ConditionalGeneration => "conditional_generation",
    }
}

fn tensorize_case(task: Task, items: &[&Synth], pad: u32, target_pad: u32) -> Value {
    json!({"part": "tensorize", "task": task_name(task), "pad_token_id": pad, "target_pad_token_id": target_pad,
           "items": items.iter().map(|i| json!({"token_ids": i.ids, "labels": i.labels, "target_token_ids": i.target_ids})).collect::<Vec<_>>()})
}

fn make_item(task: Task, s: &Synth, pad: u32, target_pad: u32) -> TrainItem {
    let input = match task {
        Task::Classification => TrainTaskInput::Classification { token_ids: s.ids.clone(), pad_token_id: pad, label: s.labels.first().copied().unwrap_or(0) },
        Task::SequenceClassification => TrainTaskInput::SequenceClassification { token_ids: s.ids.clone(), pad_token_id: pad, labels: s.labels.clone() },
        Task::Generation => TrainTaskInput::Generation { token_ids: s.ids.clone(), pad_token_id: pad, labels: s.labels.clone() },
        Task::ConditionalGeneration => TrainTaskInput::ConditionalGeneration {
            token_ids: s.ids.clone(),
            pad_token_id: pad,
            target_token_ids: s.target_ids.clone(),
            target_pad_token_id: target_pad,
            labels: s.labels.clone(),
        },
    };
    TrainItem::new(TrainData::new(String::new(), None), input)
}

/// `Tensorize` of a homogeneous batch: padded ids / labels and true lengths
fn check_tensorize(run: &mut Run, task: Task, items: &[&Synth], pad: u32, target_pad: u32, case: &dyn Fn() -> Value) {
    let batch: Vec<TrainItem> = items.iter().map(|s| make_item(task, s, pad, target_pad)).collect();
    run.calls += 1;
    let out = match catch(|| batch.tensorize()) {
        Err(p) => return run.violation("no-panic", "", case(), format!("tensorize panicked: {p}")),
        Ok(o) => o,
    };
    run.compared += 1;
    let ids: Vec<&[u32]> = items.iter().map(|i| i.ids.as_slice()).collect();
    let labels: Vec<&[i32]> = items.iter().map(|i| i.labels.as_slice()).collect();
    let targets: Vec<&[u32]> = items.iter().map(|i| i.target_ids.as_slice()).collect();
    let verdict: Result<(), String> = match (task, &out) {
        (Task::Classification, TensorizedTrainTaskInput::Classification(t, l, lab)) => padded_ok("token_ids", t, &ids, pad).and_then(|_| lengths_ok("lengths", l, &ids)).and_then(|_| {
            let want: Vec<i32> = items.iter().map(|i| i.labels.first().copied().unwrap_or(0)).collect();
            if lab.to_vec() == want {
                Ok(())
            } else {
                Err(format!("labels = {:?}, items have {want:?}", lab.to_vec()))
            }
        }),
        (Task::SequenceClassification, TensorizedTrainTaskInput::SequenceClassification(t, l, lab)) | (Task::Generation, TensorizedTrainTaskInput::Generation(t, l, lab)) => {
            padded_ok("token_ids", t, &ids, pad).and_then(|_| lengths_ok("lengths", l, &ids)).and_then(|_| padded_ok("labels", lab, &labels, -1))
        }
        (Task::ConditionalGeneration, TensorizedTrainTaskInput::ConditionalGeneration(t, l, tt, tl, lab)) => padded_ok("token_ids", t, &ids, pad)
            .and_then(|_| lengths_ok("lengths", l, &ids))
            .and_then(|_| padded_ok("target_token_ids", tt, &targets, target_pad))
            .and_then(|_| lengths_ok("target_lengths", tl, &targets))
            .and_then(|_| padded_ok("labels", lab, &labels, -1)),
        _ => Err(format!("the tensorised batch is not of kind {}", task_name(task))),
    };
    if let Err(e) = verdict {
        run.violation("padded-matrices-are-values-then-padding", "", case(), e);
    }
}

fn check_batch(run: &mut Run, sub: &Subject, items: &[&Item]) {
    check_sparse(run, sub, items);
    // the same batch as Generation items (labels = the ids), padded with the tokenizer's pad id
    let synth: Vec<Synth> = items.iter().map(|i| Synth { ids: i.ids.clone(), labels: i.ids.iter().map(|x| *x as i32).collect(), target_ids: vec![] }).collect();
    let refs: Vec<&Synth> = synth.iter().collect();
    check_tensorize(run, Task::Generation, &refs, sub.pad_id, 0, &|| batch_case(sub, items));
}

// ---------------------------------------------------------------------------------------------
// main
// ---------------------------------------------------------------------------------------------

struct Synthetic {
    /// per task: the item pool
    pools: Vec<Vec<Synth>>,
    max_batch: Vec<usize>,
}

const SYNTH_PAD: u32 = 0;
const SYNTH_TARGET_PAD: u32 = 1;

fn synthetic(max_len: usize) -> Synthetic {
    // id vectors contain the pad id itself and another id; label vectors the label padding value and another label
    let idv = vectors(&[SYNTH_PAD, 5u32], max_len);
    let tgv = vectors(&[SYNTH_TARGET_PAD, 6u32], max_len);
    let labv = vectors(&[-1i32, 3], max_len);
    let mut pools = vec![];
    // classification: one label
    let mut p = vec![];
    for ids in &idv {
        for l in [-1i32, 3] {
            p.push(Synth { ids: ids.clone(), labels: vec![l], target_ids: vec![] });
        }
    }
    pools.push(p);
    // sequence classification and generation: ids x labels (independent lengths)
    let mut p = vec![];
    for ids in &idv {
        for labels in &labv {
            p.push(Synth { ids: ids.clone(), labels: labels.clone(), target_ids: vec![] });
        }
    }
    pools.push(p.clone());
    pools.push(p);
    // conditional generation: ids x target ids x labels
    let mut p = vec![];
    for ids in &idv {
        for target_ids in &tgv {
            for labels in &labv {
                p.push(Synth { ids: ids.clone(), labels: labels.clone(), target_ids: target_ids.clone() });
            }
        }
    }
    pools.push(p);
    Synthetic { pools, max_batch: vec![3, 3, 3, 2] }
}

fn main() {
    let mut run = Run::from_env("C17");
    assert!(unambiguous(&SPECIALS), "the special-token set must be prefix-free and overlap-free");
    if let Some(c) = run.replay_case() {
        if c["part"] == "tensorize" {
            let task = TASKS.iter().copied().find(|t| task_name(*t) == c["task"]).expect("unknown task");
            let nums = |v: &Value| v.as_array().map(|a| a.iter().map(|x| x.as_i64().unwrap()).collect::<Vec<i64>>()).unwrap_or_default();
            let items: Vec<Synth> = c["items"]
                .as_array()
                .unwrap()
                .iter()
                .map(|i| Synth {
                    ids: nums(&i["token_ids"]).iter().map(|x| *x as u32).collect(),
                    labels: nums(&i["labels"]).iter().map(|x| *x as i32).collect(),
                    target_ids: nums(&i["target_token_ids"]).iter().map(|x| *x as u32).collect(),
                })
                .collect();
            let refs: Vec<&Synth> = items.iter().collect();
            let (pad, tpad) = (c["pad_token_id"].as_u64().unwrap() as u32, c["target_pad_token_id"].as_u64().unwrap() as u32);
            run.evaluations += 1;
            check_tensorize(&mut run, task, &refs, pad, tpad, &|| tensorize_case(task, &refs, pad, tpad));
        } else if let Some(sub) = build(&mut run, &cfg_from(&c["config"])) {
            // the same configuration with the other aggregation, for the items of a mixed batch
            let mut other_cfg = cfg_from(&c["config"]);
            other_cfg.mean = !other_cfg.mean;
            let other = build(&mut run, &other_cfg);
            let mut items = vec![];
            for i in c["items"].as_array().unwrap() {
                run.evaluations += 1;
                let own = i["aggregation"].as_str().map(|a| (a == "mean") == sub.cfg.mean).unwrap_or(true);
                let tok = if own { &sub } else { other.as_ref().expect("cannot build the twin configuration") };
                items.extend(check_tokenisation(&mut run, tok, i["s"].as_str().unwrap(), i["ignore_special_tokens"].as_bool().unwrap()));
            }
            if !items.is_empty() {
                let refs: Vec<&Item> = items.iter().collect();
                check_batch(&mut run, &sub, &refs);
            }
        }
        run.finish();
    }
    // bounds
    let max_len_a = run.pick(5, 6);
    let max_len_pool = run.pick(1, 2);
    let max_len_synth = run.pick(2, 3);
    let chunk_a: u64 = run.pick(128, 256);
    let n_a = count_strings(SIGMA.len(), max_len_a);
    let n_pool = count_strings(SIGMA.len(), max_len_pool);
    let cfgs = cfgs();
    let syn = synthetic(max_len_synth);
    // units: A = chunks of strings; B = (config, first item of the batch); C = (task, first item)
    let units_a = n_a.div_ceil(chunk_a);
    let units_b = cfgs.len() as u64 * n_pool;
    let units_c: u64 = syn.pools.iter().map(|p| p.len() as u64).sum();
    let units = units_a + units_b + units_c;
    if let Some(n) = run.describe_unit() {
        let d = if n < units_a {
            let (lo, hi) = (n * chunk_a, ((n + 1) * chunk_a).min(n_a));
            json!({"part": "A (groups partition the ids)", "strings": format!("shortlex strings {lo}..{hi} over the alphabet"), "first": nth_string(&SIGMA, lo), "last": nth_string(&SIGMA, hi - 1),
                   "configs": "every byte tokenizer config x ignore_special_tokens"})
        } else if n < units_a + units_b {
            let m = n - units_a;
            json!({"part": "B (sparse matrix / padding of batches of tokenisations)", "config": cfg_json(&cfgs[(m / n_pool) as usize]), "first_item": nth_string(&SIGMA, m % n_pool),
                   "batches": format!("this item followed by 0..2 further items from the pool of {n_pool} strings")})
        } else if n < units {
            let mut m = (n - units_a - units_b) as usize;
            let mut t = 0;
            while m >= syn.pools[t].len() {
                m -= syn.pools[t].len();
                t += 1;
            }
            json!({"part": "C (Tensorize of synthetic TrainItems)", "first_item": tensorize_case(TASKS[t], &[&syn.pools[t][m]], SYNTH_PAD, SYNTH_TARGET_PAD),
                   "batches": format!("this item followed by 0..{} further items from the pool of {}", syn.max_batch[t] - 1, syn.pools[t].len())})
        } else {
            json!({"part": "extra phases after the main enumeration (long texts, mixed aggregation, spelled special tokens), in that order", "offset_after_main_units": n - units})
        };
        println!("{d}");
        return;
    }
    run.bounds.insert("alphabet".into(), json!(SIGMA));
    run.bounds.insert("special_tokens".into(), json!(SPECIALS));
    run.bounds.insert(
        "byte_configs".into(),
        json!({"count": cfgs.len(), "grid": "aggregation {mean,sum} x use_graphemes {f,t} x groups {bytes,code_points} x prefix/suffix {[]/[], [bos]/[eos], [bos,pad]/[eos], []/[eos,pad]}"}),
    );
    run.bounds.insert("part_a".into(), json!({"max_symbols": max_len_a, "strings": n_a, "ignore_special_tokens": [false, true], "also": "single-sequence sparse matrix and padding of every tokenisation"}));
    let per_first = (0..3u32).map(|k| n_pool.pow(k)).sum::<u64>();
    run.bounds.insert(
        "part_b".into(),
        json!({"pool_max_symbols": max_len_pool, "pool_strings": n_pool, "batch_sizes": [1, 2, 3], "batches_per_config": n_pool * per_first, "special_tokens_in_text": "parsed (ignore_special_tokens = false)"}),
    );
    run.bounds.insert(
        "part_c".into(),
        json!({"max_vector_length": max_len_synth, "id_values": [SYNTH_PAD, 5], "target_id_values": [SYNTH_TARGET_PAD, 6], "label_values": [-1, 3],
               "item_pools": TASKS.iter().zip(&syn.pools).map(|(t, p)| json!({"task": task_name(*t), "items": p.len()})).collect::<Vec<_>>(),
               "max_batch_size": TASKS.iter().zip(&syn.max_batch).map(|(t, b)| json!({"task": task_name(*t), "max": b})).collect::<Vec<_>>()}),
    );
    run.bounds.insert("units".into(), json!({"a": units_a, "b": units_b, "c": units_c}));
    run.extra.insert(
        "rule".into(),
        json!("A: every string over the alphabet up to the length bound (shortlex) x every byte tokenizer config x ignore_special_tokens, non-trivial when some group has more than one id or the text contains a parsed special token. B: every sequence of 1..3 strings from the pool x every config, non-trivial when the batch has at least two sequences of different numbers of groups or ids (padding needed) . C: every sequence of 1..max items from the synthetic pool for each task kind, non-trivial when two rows differ in length. One evaluation per tokenisation (A) or batch (B, C)."),
    );
    run.assumptions.push("batches are non-empty and homogeneous (one task kind, one pad id per batch), as the loader produces them".into());
    run.assumptions.push("the special-token set {<unk>,<bos>,<eos>,<pad>} is prefix-free and overlap-free, so the units of a text are unique".into());
    run.assumptions.push("SparseCoo::verif_parts (feature verif) returns the matrix fields unchanged".into());

    let subs: Vec<Subject> = cfgs.iter().filter_map(|c| build(&mut run, c)).collect();
    // batches that mix groupings with mean and with sum aggregation (the aggregation belongs to each
    // grouping): every ordered pair of short strings, one tokenised by a mean config, the other by the
    // same config with sum, in both orders
    {
        let half = subs.len() / 2;
        let shorts = tu_verif::enumerate::strings(&SIGMA, run.pick(2, 2));
        run.bounds.insert("mixed_aggregation_phase".into(), json!(format!("all ordered pairs of the {} strings with at most 2 symbols x every config pair (mean, sum) x both orders", shorts.len())));
        let long_units = tu_verif::enumerate::threshold_lengths(run.pick(8, 10)).len() as u64;
        for (ia, a) in shorts.iter().enumerate() {
            if !run.unit(units + long_units + ia as u64) {
                continue;
            }
            for i in 0..half {
                let (sm, ss) = (&subs[i], &subs[i + half]);
                assert!(sm.cfg.mean && !ss.cfg.mean, "config order changed");
                let Some(x) = check_tokenisation(&mut run, sm, a, false) else { continue };
                for b in &shorts {
                    let Some(y) = check_tokenisation(&mut run, ss, b, false) else { continue };
                    run.evaluations += 1;
                    check_sparse(&mut run, sm, &[&x, &y]);
                    check_sparse(&mut run, sm, &[&y, &x]);
                }
            }
        }
    }
    // texts that spell the configured special tokens — every one of them, so that a text can begin
    // with the whole prefix sequence or end with the whole suffix sequence of a config
    {
        let shorts_n = tu_verif::enumerate::strings(&SIGMA, 2).len() as u64;
        let long_units = tu_verif::enumerate::threshold_lengths(run.pick(8, 10)).len() as u64;
        const SPELL: [&str; 6] = ["<unk>", "<bos>", "<eos>", "<pad>", "a", "<"];
        let max = run.pick(4, 5);
        let texts = tu_verif::enumerate::strings(&SPELL, max);
        run.bounds.insert("spelled_special_tokens_phase".into(), json!(format!("every string of at most {max} symbols over {SPELL:?} ({} strings) x every config x ignore_special_tokens; each alone and batched with the one-symbol text", texts.len())));
        let chunk = 64usize;
        for (k, part) in texts.chunks(chunk).enumerate() {
            if !run.unit(units + long_units + shorts_n + k as u64) {
                continue;
            }
            for s in part {
                for sub in &subs {
                    for ign in [false, true] {
                        run.evaluations += 1;
                        if let Some(item) = check_tokenisation(&mut run, sub, s, ign) {
                            if !ign && s.len() > 1 {
                                run.nontrivial += 1;
                            }
                            check_batch(&mut run, sub, &[&item]);
                            if let Some(sh) = check_tokenisation(&mut run, sub, "a", ign) {
                                check_batch(&mut run, sub, &[&item, &sh]);
                            }
                        }
                    }
                }
            }
            run.tick();
        }
    }
    // long texts: symbol counts around the powers of two a size threshold would sit at; every
    // tokenisation alone, and batched with a short and with another long text (padding)
    {
        let lens = tu_verif::enumerate::threshold_lengths(run.pick(8, 10));
        run.bounds.insert("long_phase".into(), json!(format!("symbol counts {lens:?} x (6 repeated patterns, one grapheme cluster of that many code points alone and inside text) x every config x ignore_special_tokens; each alone, with a one-symbol text and with the next pattern")));
        for (k, n) in lens.iter().enumerate() {
            if !run.unit(units + k as u64) {
                continue;
            }
            let texts: Vec<String> = [&["a"][..], &["a", "ä", "😀"][..], &["<pad>", "a", "\u{301}"][..], &["\r", "\n", "a"][..], &["\u{915}", "\u{93f}", "a"][..], &["\u{0}", "a", "\u{10ffff}"][..]].iter().map(|p| tu_verif::enumerate::repeat_symbols(p, *n)).collect();
            // (and one grapheme cluster of n code points, alone and inside text)
            let marks = format!("a{}", "\u{301}".repeat(*n - 1));
            let mut texts = texts;
            texts.extend([marks.clone(), format!("xy{marks}za")]);
            texts.extend(tu_verif::enumerate::byte_aligned_texts(*n).into_iter().step_by(2));
            for sub in &subs {
                for ign in [false, true] {
                    let items: Vec<Item> = texts.iter().filter_map(|s| {
                        run.evaluations += 1;
                        check_tokenisation(&mut run, sub, s, ign)
                    }).collect();
                    let short = check_tokenisation(&mut run, sub, "ä", ign);
                    for (i, item) in items.iter().enumerate() {
                        check_batch(&mut run, sub, &[item]);
                        if let Some(sh) = &short {
                            check_batch(&mut run, sub, &[item, sh]);
                            check_batch(&mut run, sub, &[sh, item]);
                        }
                        check_batch(&mut run, sub, &[item, &items[(i + 1) % items.len()]]);
                    }
                }
            }
            run.tick();
        }
    }
    let (mut multi_id_groups, mut nested_groups) = (0u64, 0u64);
    for unit in 0..units {
        if !run.unit(unit) {
            continue;
        }
        if run.out_of_time() {
            break;
        }
        if unit < units_a {
            for i in unit * chunk_a..((unit + 1) * chunk_a).min(n_a) {
                let s = nth_string(&SIGMA, i);
                if i % 16 == 0 {
                    run.tick();
                }
                for sub in &subs {
                    for ign in [false, true] {
                        run.evaluations += 1;
                        run.sample(|| groups_case(&sub.case_cfg, &[(&s, ign)]));
                        if let Some(item) = check_tokenisation(&mut run, sub, &s, ign) {
                            let multi = item.grouping.0.iter().any(|g| flat_len(g) > 1);
                            let nested = item.grouping.0.iter().any(|g| matches!(g, TokenGroup::Nested(v) if v.len() > 1));
                            multi_id_groups += multi as u64;
                            nested_groups += nested as u64;
                            if multi || (!ign && s.contains(PAD)) {
                                run.nontrivial += 1;
                            }
                            if i % 64 == 0 {
                                run.outcome(&(item.ids.clone(), format!("{:?}", item.grouping.0)));
                            }
                            check_batch(&mut run, sub, &[&item]);
                        }
                    }
                }
            }
            run.tick();
        } else if unit < units_a + units_b {
            let m = unit - units_a;
            let sub = &subs[(m / n_pool) as usize % subs.len()];
            if subs.len() != cfgs.len() {
                continue; // a tokenizer could not be built (reported above)
            }
            // the pool, tokenised by this tokenizer (each tokenisation was checked in part A)
            let pool: Vec<Item> = (0..n_pool)
                .filter_map(|i| {
                    let s = nth_string(&SIGMA, i);
                    run.calls += 1;
                    match catch(|| sub.tok.tokenize(&s, false)) {
                        Ok(Ok(t)) => match t.info {
                            TokenizationInfo::TokenGroups(g) if g.len() == 1 => Some(Item { s, ign: false, ids: t.token_ids, grouping: g.into_values().next().unwrap() }),
                            _ => None,
                        },
                        _ => None,
                    }
                })
                .collect();
            if pool.len() as u64 != n_pool {
                run.violation("tokenize-succeeds", "", groups_case(&sub.case_cfg, &[]), "a pool string could not be tokenised into ids and one grouping (see part A)".into());
                continue;
            }
            let first = &pool[(m % n_pool) as usize];
            let mut batches: Vec<Vec<&Item>> = vec![vec![first]];
            for second in &pool {
                batches.push(vec![first, second]);
                for third in &pool {
                    batches.push(vec![first, second, third]);
                }
            }
            for (k, b) in batches.iter().enumerate() {
                if k % 256 == 0 {
                    run.tick();
                }
                run.evaluations += 1;
                run.sample(|| batch_case(sub, b));
                if b.iter().any(|i| i.ids.len() != b[0].ids.len() || i.grouping.0.len() != b[0].grouping.0.len()) {
                    run.nontrivial += 1;
                }
                check_batch(&mut run, sub, b);
            }
            run.tick();
        } else {
            let mut m = (unit - units_a - units_b) as usize;
            let mut t = 0;
            while m >= syn.pools[t].len() {
                m -= syn.pools[t].len();
                t += 1;
            }
            let (task, pool, first) = (TASKS[t], &syn.pools[t], &syn.pools[t][m]);
            let mut batches: Vec<Vec<&Synth>> = vec![vec![first]];
            if syn.max_batch[t] >= 2 {
                for second in pool {
                    batches.push(vec![first, second]);
                    if syn.max_batch[t] >= 3 {
                        for third in pool {
                            batches.push(vec![first, second, third]);
                        }
                    }
                }
            }
            for (k, b) in batches.iter().enumerate() {
                run.evaluations += 1;
                run.sample(|| tensorize_case(task, b, SYNTH_PAD, SYNTH_TARGET_PAD));
                if b.iter().any(|i| i.ids.len() != b[0].ids.len() || i.labels.len() != b[0].labels.len() || i.target_ids.len() != b[0].target_ids.len()) {
                    run.nontrivial += 1;
                }
                check_tensorize(&mut run, task, b, SYNTH_PAD, SYNTH_TARGET_PAD, &|| tensorize_case(task, b, SYNTH_PAD, SYNTH_TARGET_PAD));
                if k % 512 == 0 {
                    run.tick();
                }
            }
        }
    }
    run.count_n("tokenisations-with-a-group-of-several-ids", multi_id_groups);
    run.count_n("tokenisations-with-a-nested-group-of-several-code-points", nested_groups);
    run.finish();
}
