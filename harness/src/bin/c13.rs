//! C13 — correction metrics are total, bounded, calibrated and aggregate correctly.
//! Engine A: bounded-exhaustive enumeration of (input, prediction, target) triples and short lists of
//! them on the real `metrics` functions, compared with formulas written from the statement
//! (DESIGN 5/C13).
//!
//! Unit numbering (N = number of strings over {a,b,' '} with at most L symbols, L = 3 quick / 4
//! thorough; all sets in shortlex order):
//!   phase A  [0, N*N)            unit = input_index * N + prediction_index; every target x use_graphemes:
//!                                spelling F1 singleton (all clauses) and whitespace F1 singleton x 3 modes
//!                                (all clauses when the three strings have the same non-whitespace
//!                                content, otherwise only no-panic / range)
//!   phase Z  1 unit              empty lists and lists of different lengths for every function
//!   phase B  2197 units          unit = index x of the first triple among the 13^3 triples over strings
//!                                with at most 2 symbols; lists [x, y] of two triples (spelling
//!                                aggregation laws); y over all 2197 triples (thorough) or over the 64
//!                                triples with at most 1 symbol, both orders [x,y] and [y,x] (quick)
//!   phase C  sum 2^k * 2^(k+1)   unit = (non-whitespace content w over {a,b}, |w| = k <= 3 quick / 4
//!                                thorough, gap vector of the input); every gap vector of prediction and
//!                                target x 3 modes x use_graphemes (whitespace F1 singleton, all clauses)
//!   phase D  |W| units           unit = index of the first triple in W = whitespace-clean triples with
//!                                equal content, |w| <= 2 (quick) / 3 (thorough); lists of two triples
//!                                (all ordered pairs) x 3 modes x use_graphemes (aggregation laws)
//!   phase E  31 units            unit = prediction vector (bool, length <= 4); every target vector
//!                                (also of a different length): binary_f1 x beta, accuracy
//!   phase F  40 units            unit = first string (L <= 3); every second string x use_graphemes:
//!                                mean (normalised) edit distance of the single pair
//!   phase G  169 units           unit = first pair of strings with at most 2 symbols; every second pair
//!                                x use_graphemes: mean (normalised) edit distance of the list of two
use serde_json::{json, Value};
use std::collections::BTreeSet;
use text_utils::metrics::{self, F1Info, WhitespaceCorrectionMode};
use text_utils::whitespace::{self, Operation};
use tu_verif::enumerate::{sequences, strings};
use tu_verif::guard::catch;
use tu_verif::refs;
use tu_verif::run::Run;

const ALPHA: [&str; 3] = ["a", "b", " "];
const CONTENT_ALPHA: [&str; 2] = ["a", "b"];
/// phase I: symbols of 2 and 4 bytes, and a cluster of two code points without a composed form
const WIDE_ALPHA: [&str; 5] = ["ä", "😀", "x\u{301}", " ", "\u{e0}"];
const BETAS: [f64; 3] = [0.5, 1.0, 2.0];
const MODES: [&str; 3] = ["insertions", "deletions", "insertions_and_deletions"];
const EPS: f64 = 1e-12;
const D8: &str = "D8-one-side-has-no-words";
const D8_ASSERTION: &str = "input_idx == input_words.len()";

/// (input, prediction, target)
type Tr<'a> = [&'a str; 3];
type F1Result = ((f64, f64, f64), Vec<F1Info>);

#[derive(Clone, Copy, PartialEq, Eq, Debug)]
enum Kind {
    Spelling,
    Whitespace(usize),
}

fn mode(m: usize) -> WhitespaceCorrectionMode {
    match m {
        0 => WhitespaceCorrectionMode::Insertions,
        1 => WhitespaceCorrectionMode::Deletions,
        _ => WhitespaceCorrectionMode::InsertionsAndDeletions,
    }
}

fn mode_has(m: usize, op: Operation) -> bool {
    match op {
        Operation::Insert => m == 0 || m == 2,
        Operation::Delete => m == 1 || m == 2,
        Operation::Keep => false,
    }
}

// ------------------------------------------------------------------------------------------------
// reference side (written from the statement)
// ------------------------------------------------------------------------------------------------

/// whitespace-clean form on the ASCII alphabet used here: words joined by single spaces (NFKC is the
/// identity on this alphabet)
fn clean(s: &str) -> String {
    s.split_whitespace().collect::<Vec<_>>().join(" ")
}

fn has_no_word(s: &str) -> bool {
    s.split_whitespace().count() == 0
}

fn content(s: &str) -> String {
    s.chars().filter(|c| !c.is_whitespace()).collect()
}

fn content_equal(t: Tr) -> bool {
    content(t[0]) == content(t[1]) && content(t[0]) == content(t[2])
}

/// D8 predicate: exactly one of cleaned input / cleaned prediction has no word
fn d8_pred(t: Tr) -> bool {
    has_no_word(t[0]) != has_no_word(t[1])
}

/// precision = tp / max(tp+fp, 1), recall = tp / max(tp+fn, 1), F = (1+b^2) P R / (b^2 P + R), 0 when
/// P + R = 0; returned as [F, P, R]
fn f_beta(tp: usize, fp: usize, fn_: usize, beta: f64) -> [f64; 3] {
    let p = if tp + fp == 0 { 0.0 } else { tp as f64 / (tp + fp) as f64 };
    let r = if tp + fn_ == 0 { 0.0 } else { tp as f64 / (tp + fn_) as f64 };
    let f = if p + r > 0.0 { (1.0 + beta * beta) * p * r / (beta * beta * p + r) } else { 0.0 };
    [f, p, r]
}

fn close(a: &[f64; 3], b: &[f64; 3]) -> bool {
    a.iter().zip(b).all(|(x, y)| x.is_finite() && (x - y).abs() <= EPS)
}

fn in_unit(x: &[f64; 3]) -> bool {
    x.iter().all(|v| v.is_finite() && (0.0..=1.0).contains(v))
}

fn short(s: String) -> String {
    if s.chars().count() > 400 {
        s.chars().take(400).collect::<String>() + " ..."
    } else {
        s
    }
}

// ------------------------------------------------------------------------------------------------
// subject calls
// ------------------------------------------------------------------------------------------------

fn call_f1_lists(kind: Kind, i: &[&str], p: &[&str], t: &[&str], beta: f64, avg: bool, g: bool) -> Result<anyhow::Result<F1Result>, String> {
    catch(|| match kind {
        Kind::Spelling => metrics::spelling_correction_f1(i, p, t, beta, avg, g),
        Kind::Whitespace(m) => metrics::whitespace_correction_f1(i, p, t, beta, avg, mode(m), g),
    })
}

fn call_f1(kind: Kind, list: &[Tr], beta: f64, avg: bool, g: bool) -> Result<anyhow::Result<F1Result>, String> {
    let i: Vec<&str> = list.iter().map(|t| t[0]).collect();
    let p: Vec<&str> = list.iter().map(|t| t[1]).collect();
    let t: Vec<&str> = list.iter().map(|t| t[2]).collect();
    call_f1_lists(kind, &i, &p, &t, beta, avg, g)
}

fn call_counts(kind: Kind, t: Tr, g: bool) -> Result<anyhow::Result<(bool, usize, usize, usize)>, String> {
    catch(|| match kind {
        Kind::Spelling => Ok(metrics::verif_spelling_tp_fp_fn(t[0], t[1], t[2], g)),
        Kind::Whitespace(m) => metrics::verif_whitespace_tp_fp_fn(t[0], t[1], t[2], &mode(m), g),
    })
}

fn case_json(kind: Kind, list: &[Tr], g: bool) -> Value {
    let triples: Vec<Vec<&str>> = list.iter().map(|t| t.to_vec()).collect();
    match kind {
        Kind::Spelling => json!({"kind": "spelling", "triples": triples, "use_graphemes": g}),
        Kind::Whitespace(m) => json!({"kind": "whitespace", "mode": MODES[m], "triples": triples, "use_graphemes": g}),
    }
}

/// violations of one case: at most one per clause
#[derive(Default)]
struct Found(Vec<(&'static str, String)>);

impl Found {
    fn add(&mut self, clause: &'static str, detail: impl FnOnce() -> String) {
        if !self.0.iter().any(|(c, _)| *c == clause) {
            self.0.push((clause, detail()));
        }
    }
}

/// what a singleton evaluation leaves behind for the list laws
#[derive(Clone, Default)]
struct Single {
    /// (nothing to correct, tp, fp, fn) from the verification accessor
    counts: Option<(bool, usize, usize, usize)>,
    /// sequence-averaged result [F, P, R] of the singleton list per beta
    seq: [Option<[f64; 3]>; 3],
    /// an `Err` is accepted for this triple (whitespace F1 on mismatching content)
    err_ok: bool,
}

/// the class of a panic: D8 iff the case is a spelling case, some member triple satisfies the D8
/// predicate and every panic is the closing assertion of the word-grouping step
fn panic_class(kind: Kind, list: &[Tr], panics: &[String]) -> &'static str {
    if kind == Kind::Spelling && list.iter().any(|t| d8_pred(*t)) && panics.iter().all(|p| p.contains(D8_ASSERTION)) {
        D8
    } else {
        ""
    }
}

fn flush(run: &mut Run, kind: Kind, list: &[Tr], g: bool, panics: Vec<String>, found: Found) {
    if !panics.is_empty() {
        let class = panic_class(kind, list, &panics);
        run.violation("no-panic", class, case_json(kind, list, g), short(panics.join("; ")));
    }
    for (clause, detail) in found.0 {
        let class = if matches!(clause, "returns-values" | "prediction-equals-target-no-fp-fn") && g && list.iter().any(|t| t.iter().any(|s| d16_pred(s))) { D16 } else { "" };
        run.violation(clause, class, case_json(kind, list, g), short(detail));
    }
}

/// Known defect class D16 (computed from the case, never assumed): grapheme mode, and the text the
/// metrics work on -- clean, NFKC, clean -- still has a grapheme cluster that mixes whitespace and
/// non-whitespace code points (NFKC turns U+00B4 into a space and a combining mark, which form one
/// cluster), so it is not a fixed point of cleaning.
const D16: &str = "D16-prepared-text-has-a-cluster-mixing-whitespace-and-a-mark";

fn d16_pred(s: &str) -> bool {
    use text_utils::unicode::{normalize, Normalization};
    let prepared = text_utils::text::clean(&normalize(&text_utils::text::clean(s, true), Normalization::NFKC, true), true);
    refs::has_mixed_cluster(&prepared)
}

/// sequence-averaged whitespace F1 of the singleton list [("a","a","a")] (no operation at all)
fn canonical_zero_value(m: usize, g: bool, bi: usize) -> Option<[f64; 3]> {
    use std::sync::Mutex;
    static CACHE: Mutex<Vec<((usize, bool, usize), Option<[f64; 3]>)>> = Mutex::new(Vec::new());
    let key = (m, g, bi);
    if let Some((_, v)) = CACHE.lock().unwrap().iter().find(|(k, _)| *k == key) {
        return *v;
    }
    let v = match call_f1(Kind::Whitespace(m), &[["a", "a", "a"]], BETAS[bi], true, g) {
        Ok(Ok(((f, p, r), _))) => Some([f, p, r]),
        _ => None,
    };
    CACHE.lock().unwrap().push((key, v));
    v
}

/// One triple as a list of one: accessor counts, the F1 function over beta x sequence_averaged, and
/// every singleton clause. With `report == false` only what the list laws need is computed and
/// nothing is counted or reported.
fn eval_single(run: &mut Run, kind: Kind, t: Tr, g: bool, report: bool) -> Single {
    let list = [t];
    let same_content = content_equal(t);
    let (ci, cp, ct) = (clean(t[0]), clean(t[1]), clean(t[2]));
    let mut panics: Vec<String> = vec![];
    let mut found = Found::default();
    let mut out = Single::default();

    // reference operation sets (whitespace, equal content)
    let mut ref_sets: Option<(BTreeSet<(usize, Operation)>, BTreeSet<(usize, Operation)>)> = None;
    if let Kind::Whitespace(m) = kind {
        if same_content {
            let gt = catch(|| whitespace::operations(&ci, &ct, g));
            let pr = catch(|| whitespace::operations(&ci, &cp, g));
            if let (Ok(Ok(gt)), Ok(Ok(pr))) = (gt, pr) {
                let set = |ops: &[Operation]| -> BTreeSet<(usize, Operation)> { ops.iter().copied().enumerate().filter(|(_, op)| mode_has(m, *op)).collect() };
                ref_sets = Some((set(&gt), set(&pr)));
            } else if report {
                run.count("whitespace: operations() fails on equal content");
            }
        }
    }
    // Err is accepted from the whitespace F1 unless the ground-truth operations exist
    out.err_ok = matches!(kind, Kind::Whitespace(_)) && ref_sets.is_none();
    let light = matches!(kind, Kind::Whitespace(_)) && !same_content;

    if report {
        run.evaluations += 1;
        run.sample(|| case_json(kind, &list, g));
    }

    // mismatching content: whether the function refuses the triple does not depend on beta or
    // the averaging, so one refused call settles the case (an Err is accepted, a panic is not)
    if light && report {
        run.calls += 1;
        if let Ok(Err(_)) = call_f1(kind, &list, 1.0, false, g) {
            run.count("whitespace: Err accepted (mismatching content)");
            return out;
        }
    }

    // counts
    run.calls += 1;
    match call_counts(kind, t, g) {
        Err(p) => panics.push(format!("verif accessor: {p}")),
        Ok(Err(e)) => {
            if !out.err_ok {
                found.add("returns-values", || format!("verif accessor returned Err: {e}"));
            }
        }
        Ok(Ok(c)) => out.counts = Some(c),
    }

    // the public function
    let full: [(usize, bool); 6] = [(0, false), (1, false), (2, false), (0, true), (1, true), (2, true)];
    let grid: &[(usize, bool)] = if !report {
        &full[3..]
    } else if light {
        &[(1, false), (1, true)]
    } else {
        &full
    };
    let mut info_checked = false;
    for &(bi, avg) in grid {
        let beta = BETAS[bi];
        run.calls += 1;
        match call_f1(kind, &list, beta, avg, g) {
            Err(p) => {
                // one panic settles the case; the rest of the grid is not called
                panics.push(format!("F1(beta={beta}, sequence_averaged={avg}): {p}"));
                break;
            }
            Ok(Err(e)) => {
                if !out.err_ok {
                    found.add("returns-values", || format!("F1(beta={beta}, sequence_averaged={avg}) returned Err: {e}"));
                } else if report {
                    run.count("whitespace: Err accepted");
                }
            }
            Ok(Ok(((f, p, r), infos))) => {
                let got = [f, p, r];
                if !in_unit(&got) {
                    found.add("finite-in-unit-interval", || format!("F1(beta={beta}, sequence_averaged={avg}) = (f, precision, recall) = {got:?}"));
                }
                if avg {
                    out.seq[bi] = Some(got);
                }
                if let Some((nothing, tp, fp, fn_)) = out.counts {
                    // for the whitespace F1 "nothing to correct and nothing predicted" is derived from
                    // the counts (tp + fn = ground-truth operations, tp + fp = predicted operations),
                    // not taken from the library's own flag
                    let nothing = if matches!(kind, Kind::Whitespace(_)) { tp + fp + fn_ == 0 } else { nothing };
                    let want = f_beta(tp, fp, fn_, beta);
                    if !avg {
                        run.compared += 1;
                        if !close(&got, &want) {
                            found.add("micro-is-f-beta-of-summed-counts", || format!("beta={beta}: got {got:?}, F_beta of the counts (tp={tp}, fp={fp}, fn={fn_}) is {want:?}"));
                        }
                    } else if !nothing {
                        // the per-sequence value of a sequence with something to correct
                        run.compared += 1;
                        if !close(&got, &want) {
                            found.add("sequence-value-is-f-beta-of-counts", || format!("beta={beta}: sequence-averaged singleton {got:?}, F_beta of the counts (tp={tp}, fp={fp}, fn={fn_}) is {want:?}"));
                        }
                    } else if let Kind::Whitespace(m) = kind {
                        // a per-sequence value is determined by the sequence's counts: every sequence
                        // with counts (0,0,0) must score like the plainest one, ("a","a","a"); which
                        // value that is (the statement does not say) is not judged
                        if let Some(canon) = canonical_zero_value(m, g, bi) {
                            run.compared += 1;
                            if !close(&got, &canon) {
                                found.add("sequence-value-determined-by-counts", || format!("beta={beta}: this sequence has counts tp=fp=fn=0 and scores {got:?}, the sequence (\"a\",\"a\",\"a\") has the same counts and scores {canon:?}"));
                            }
                        }
                    }
                    if matches!(kind, Kind::Whitespace(_)) && !info_checked {
                        info_checked = true;
                        run.compared += 1;
                        match infos.as_slice() {
                            [F1Info::WhitespaceCorrectionInfo((a, b, c))] if (a.len(), b.len(), c.len()) == (tp, fp, fn_) => {}
                            other => found.add("info-lengths-equal-counts", || format!("counts (tp={tp}, fp={fp}, fn={fn_}) but info {other:?}")),
                        }
                    }
                }
            }
        }
    }

    if !report {
        return out;
    }

    // clauses on the counts
    if let Some((_, tp, fp, fn_)) = out.counts {
        run.outcome(&(kind == Kind::Spelling, out.counts));
        if cp == ct && (fp != 0 || fn_ != 0) {
            found.add("prediction-equals-target-no-fp-fn", || format!("prediction == target but fp={fp}, fn={fn_} (tp={tp})"));
        }
        if cp == ci && ci != ct && tp != 0 {
            found.add("unchanged-prediction-no-tp", || format!("prediction == input != target but tp={tp} (fp={fp}, fn={fn_})"));
        }
        if let Some((gt, pr)) = &ref_sets {
            run.compared += 1;
            let want = (gt.intersection(pr).count(), pr.difference(gt).count(), gt.difference(pr).count());
            if want != (tp, fp, fn_) {
                found.add("counts-equal-operation-set-comparison", || format!("counts (tp, fp, fn) = {:?}, set comparison of ground truth {gt:?} and predicted {pr:?} gives {want:?}", (tp, fp, fn_)));
            }
            if !gt.is_empty() || !pr.is_empty() {
                run.nontrivial += 1;
            }
        } else if tp + fp + fn_ > 0 {
            run.nontrivial += 1;
        }
    }
    if !panics.is_empty() {
        run.count(if kind == Kind::Spelling { "spelling: singleton panics" } else { "whitespace: singleton panics" });
    }
    flush(run, kind, &list, g, panics, found);
    out
}

/// A list of n != 1 triples: aggregation laws against the singleton results of its members.
fn eval_list(run: &mut Run, kind: Kind, list: &[Tr], singles: &[&Single], g: bool) {
    run.evaluations += 1;
    run.sample(|| case_json(kind, list, g));
    let mut panics: Vec<String> = vec![];
    let mut found = Found::default();
    let err_ok = singles.iter().any(|s| s.err_ok);
    let sums: Option<(usize, usize, usize)> = singles.iter().try_fold((0, 0, 0), |acc, s| s.counts.map(|(_, tp, fp, fn_)| (acc.0 + tp, acc.1 + fp, acc.2 + fn_)));
    if let Some((tp, fp, fn_)) = sums {
        let distinct: BTreeSet<_> = singles.iter().map(|s| s.counts).collect();
        if tp + fp + fn_ > 0 && (list.len() < 2 || distinct.len() > 1) {
            run.nontrivial += 1;
        }
    }
    'grid: for avg in [false, true] {
        for (bi, beta) in BETAS.iter().copied().enumerate() {
            run.calls += 1;
            match call_f1(kind, list, beta, avg, g) {
                Err(p) => {
                    // one panic settles the case; the rest of the grid is not called
                    panics.push(format!("F1(beta={beta}, sequence_averaged={avg}): {p}"));
                    break 'grid;
                }
                Ok(Err(e)) => {
                    if !err_ok {
                        found.add("returns-values", || format!("F1(beta={beta}, sequence_averaged={avg}) returned Err: {e}"));
                    }
                }
                Ok(Ok(((f, p, r), _))) => {
                    let got = [f, p, r];
                    if !in_unit(&got) {
                        found.add("finite-in-unit-interval", || format!("F1(beta={beta}, sequence_averaged={avg}) = (f, precision, recall) = {got:?}"));
                    }
                    if !avg {
                        if let Some((tp, fp, fn_)) = sums {
                            run.compared += 1;
                            let want = f_beta(tp, fp, fn_, beta);
                            if !close(&got, &want) {
                                found.add("micro-is-f-beta-of-summed-counts", || format!("beta={beta}: got {got:?}, F_beta of the summed counts (tp={tp}, fp={fp}, fn={fn_}) is {want:?}"));
                            }
                        }
                    } else if !list.is_empty() {
                        let parts: Option<Vec<[f64; 3]>> = singles.iter().map(|s| s.seq[bi]).collect();
                        if let Some(parts) = parts {
                            run.compared += 1;
                            let n = parts.len() as f64;
                            let mut want = [0.0; 3];
                            for k in 0..3 {
                                want[k] = parts.iter().map(|x| x[k]).sum::<f64>() / n;
                            }
                            if !close(&got, &want) {
                                found.add("sequence-averaged-is-mean-of-singletons", || format!("beta={beta}: got {got:?}, the singleton results {parts:?} have mean {want:?}"));
                            }
                        }
                    }
                }
            }
        }
    }
    if !panics.is_empty() {
        run.count(if kind == Kind::Spelling { "spelling: list panics" } else { "whitespace: list panics" });
    }
    flush(run, kind, list, g, panics, found);
}

/// lists of different lengths: an `Err` is accepted, a panic is not
fn check_f1_length_mismatch(run: &mut Run, kind: Kind, i: &[&str], p: &[&str], t: &[&str], g: bool) {
    run.evaluations += 1;
    let m = if let Kind::Whitespace(m) = kind { MODES[m] } else { "" };
    for avg in [false, true] {
        run.calls += 1;
        match call_f1_lists(kind, i, p, t, 1.0, avg, g) {
            Err(msg) => run.violation(
                "no-panic",
                "",
                json!({"kind": "f1-length-mismatch", "function": if kind == Kind::Spelling { "spelling" } else { "whitespace" }, "mode": m, "inputs": i, "predictions": p, "targets": t, "use_graphemes": g}),
                short(format!("F1(sequence_averaged={avg}) panicked: {msg}")),
            ),
            Ok(Err(_)) => run.count("f1 length mismatch: Err"),
            Ok(Ok(((f, pr, r), _))) => {
                run.count("f1 length mismatch: Ok");
                if !in_unit(&[f, pr, r]) {
                    run.violation(
                        "finite-in-unit-interval",
                        "",
                        json!({"kind": "f1-length-mismatch", "function": if kind == Kind::Spelling { "spelling" } else { "whitespace" }, "mode": m, "inputs": i, "predictions": p, "targets": t, "use_graphemes": g}),
                        format!("F1(sequence_averaged={avg}) = {:?}", (f, pr, r)),
                    );
                }
            }
        }
    }
}

// ------------------------------------------------------------------------------------------------
// binary F1, accuracy
// ------------------------------------------------------------------------------------------------

fn check_binary(run: &mut Run, pred: &[bool], tgt: &[bool]) {
    run.evaluations += 1;
    let case = || json!({"kind": "binary", "predictions": pred, "targets": tgt});
    run.sample(case);
    let same_len = pred.len() == tgt.len();
    let tp = pred.iter().zip(tgt).filter(|(p, t)| **p && **t).count();
    let fp = pred.iter().zip(tgt).filter(|(p, t)| **p && !**t).count();
    let fn_ = pred.iter().zip(tgt).filter(|(p, t)| !**p && **t).count();
    if same_len && tp + fp + fn_ > 0 {
        run.nontrivial += 1;
    }
    for beta in BETAS {
        run.calls += 1;
        match catch(|| metrics::binary_f1(pred, tgt, beta)) {
            Err(p) => run.violation("no-panic", "", case(), format!("binary_f1(beta={beta}) panicked: {p}")),
            Ok(Err(e)) => {
                if same_len {
                    run.violation("binary-f1-equals-formula", "", case(), format!("binary_f1(beta={beta}) returned Err for equally long lists: {e}"));
                }
            }
            Ok(Ok((f, p, r))) => {
                run.compared += 1;
                let got = [f, p, r];
                if !same_len {
                    run.violation("length-mismatch-is-error", "", case(), format!("binary_f1(beta={beta}) = {got:?} for lists of different lengths"));
                } else {
                    let want = f_beta(tp, fp, fn_, beta);
                    if !in_unit(&got) {
                        run.violation("finite-in-unit-interval", "", case(), format!("binary_f1(beta={beta}) = {got:?}"));
                    } else if !close(&got, &want) {
                        run.violation("binary-f1-equals-formula", "", case(), format!("binary_f1(beta={beta}) = {got:?}, formula on (tp={tp}, fp={fp}, fn={fn_}) gives {want:?}"));
                    }
                }
            }
        }
    }
    run.calls += 1;
    match catch(|| metrics::accuracy(pred, tgt)) {
        Err(p) => run.violation("no-panic", "", case(), format!("accuracy panicked: {p}")),
        Ok(Err(e)) => {
            if same_len {
                run.violation("accuracy-equals-formula", "", case(), format!("accuracy returned Err for equally long lists: {e}"));
            }
        }
        Ok(Ok(a)) => {
            run.compared += 1;
            if !same_len {
                run.violation("length-mismatch-is-error", "", case(), format!("accuracy = {a} for lists of different lengths"));
            } else if !(a.is_finite() && (0.0..=1.0).contains(&a)) {
                run.violation("finite-in-unit-interval", "", case(), format!("accuracy = {a}"));
            } else if !pred.is_empty() {
                // the fraction of positions with equal entries (for empty lists only the range is required)
                let want = pred.iter().zip(tgt).filter(|(p, t)| p == t).count() as f64 / pred.len() as f64;
                if (a - want).abs() > EPS {
                    run.violation("accuracy-equals-formula", "", case(), format!("accuracy = {a}, fraction of equal positions = {want}"));
                }
            }
        }
    }
}

// ------------------------------------------------------------------------------------------------
// mean (normalised) edit distance
// ------------------------------------------------------------------------------------------------

fn check_med(run: &mut Run, a: &[&str], b: &[&str], g: bool) {
    run.evaluations += 1;
    let case = || json!({"kind": "mean_edit_distance", "sequences": a, "targets": b, "use_graphemes": g});
    run.sample(case);
    let same_len = a.len() == b.len();
    // reference: per pair the C12 reference distance (no transposition, substitutions allowed) of the
    // cleaned strings, normalised by the longer length (0 for two empty strings)
    let mut sum = 0.0;
    let mut nsum = 0.0;
    if same_len {
        for (x, y) in a.iter().zip(b) {
            let (cx, cy) = (clean(x), clean(y));
            let (xs, ys) = (refs::chars(&cx, g), refs::chars(&cy, g));
            let d = refs::edit_distance(&xs, &ys, false, false) as f64;
            sum += d;
            let longer = xs.len().max(ys.len());
            nsum += if longer == 0 { 0.0 } else { d / longer as f64 };
        }
        if sum > 0.0 {
            run.nontrivial += 1;
        }
    }
    for normalized in [false, true] {
        let name = if normalized { "mean_normalized_edit_distance" } else { "mean_edit_distance" };
        run.calls += 1;
        let r = catch(|| if normalized { metrics::mean_normalized_edit_distance(a, b, g) } else { metrics::mean_edit_distance(a, b, g) });
        match r {
            Err(p) => run.violation("no-panic", "", case(), format!("{name} panicked: {p}")),
            Ok(Err(e)) => {
                if same_len {
                    run.violation("mean-distance-equals-formula", "", case(), format!("{name} returned Err for equally long lists: {e}"));
                }
            }
            Ok(Ok(v)) => {
                run.compared += 1;
                if !same_len {
                    run.violation("length-mismatch-is-error", "", case(), format!("{name} = {v} for lists of different lengths"));
                } else if !(v.is_finite() && v >= 0.0 && (!normalized || v <= 1.0)) {
                    run.violation("mean-distance-finite-and-bounded", "", case(), format!("{name} = {v}"));
                } else if !a.is_empty() {
                    // for the empty list only finiteness and the range are required
                    let want = if normalized { nsum } else { sum } / a.len() as f64;
                    if (v - want).abs() > EPS {
                        run.violation("mean-distance-equals-formula", "", case(), format!("{name} = {v}, mean of the reference distances = {want}"));
                    }
                }
            }
        }
    }
}

/// What holds under every reading of the formula, also for strings whose cleaning depends on the
/// character unit (a space followed by a combining mark): a list has distance 0 from itself, and
/// the mean distance is symmetric (no operation is restricted, both sides are prepared alike).
fn check_med_invariants(run: &mut Run, a: &str, b: &str, g: bool) {
    run.evaluations += 1;
    let case = || json!({"kind": "mean_edit_distance_invariants", "a": a, "b": b, "use_graphemes": g});
    for normalized in [false, true] {
        let name = if normalized { "mean_normalized_edit_distance" } else { "mean_edit_distance" };
        let f = |x: &str, y: &str| catch(|| if normalized { metrics::mean_normalized_edit_distance(&[x], &[y], g) } else { metrics::mean_edit_distance(&[x], &[y], g) });
        run.calls += 3;
        match (f(a, a), f(a, b), f(b, a)) {
            (Ok(Ok(aa)), Ok(Ok(ab)), Ok(Ok(ba))) => {
                run.compared += 1;
                if aa != 0.0 {
                    run.violation("mean-distance-of-a-list-from-itself-is-zero", "", case(), format!("{name}([a], [a]) = {aa}"));
                }
                if (ab - ba).abs() > EPS {
                    run.violation("mean-distance-is-symmetric", "", case(), format!("{name}([a], [b]) = {ab}, {name}([b], [a]) = {ba}"));
                }
                if ab != 0.0 {
                    run.nontrivial += 1;
                }
            }
            (x, y, z) => {
                for r in [x, y, z] {
                    match r {
                        Err(p) => run.violation("no-panic", "", case(), format!("{name} panicked: {p}")),
                        Ok(Err(e)) => run.violation("mean-distance-equals-formula", "", case(), format!("{name} returned Err for equally long lists: {e}")),
                        _ => {}
                    }
                }
            }
        }
    }
}

// ------------------------------------------------------------------------------------------------
// enumeration
// ------------------------------------------------------------------------------------------------

/// content characters with gaps: bit k of `bits` puts one space in front of character k, bit |w| one
/// space after the last character
fn gap_string(w: &[usize], bits: u32) -> String {
    let mut s = String::new();
    for (k, c) in w.iter().enumerate() {
        if bits >> k & 1 == 1 {
            s.push(' ');
        }
        s.push_str(CONTENT_ALPHA[*c]);
    }
    if bits >> w.len() & 1 == 1 {
        s.push(' ');
    }
    s
}

/// only inner gaps: bit k-1 puts one space in front of character k (k >= 1)
fn inner_gap_string(w: &[usize], bits: u32) -> String {
    gap_string(w, bits << 1 & !(1u32 << w.len()))
}

struct Space {
    /// strings over ALPHA up to the tier's length bound (phase A)
    all: Vec<String>,
    /// strings with at most 2 symbols and the 13^3 triples over them (phase B)
    s2: Vec<String>,
    /// phase C units: (content, gap bits of the input)
    ws_units: Vec<(Vec<usize>, u32)>,
    /// phase D: whitespace-clean triples with equal content
    w: Vec<[String; 3]>,
    bools: Vec<Vec<bool>>,
    s3: Vec<String>,
    a: u64,
    z: u64,
    b: u64,
    c: u64,
    d: u64,
    e: u64,
    f: u64,
    g: u64,
    end: u64,
}

impl Space {
    fn new(run: &Run) -> Space {
        let all = strings(&ALPHA, run.pick(3, 4));
        let s2 = strings(&ALPHA, 2);
        let s3 = strings(&ALPHA, 3);
        let contents = |max: usize| -> Vec<Vec<usize>> { sequences(2, max) };
        let mut ws_units = vec![];
        for w in contents(run.pick(3, 4)) {
            for bits in 0..(1u32 << (w.len() + 1)) {
                ws_units.push((w.clone(), bits));
            }
        }
        let mut wl = vec![];
        for w in contents(run.pick(2, 3)) {
            let n = 1u32 << w.len().saturating_sub(1);
            for bi in 0..n {
                for bp in 0..n {
                    for bt in 0..n {
                        wl.push([inner_gap_string(&w, bi), inner_gap_string(&w, bp), inner_gap_string(&w, bt)]);
                    }
                }
            }
        }
        let bools: Vec<Vec<bool>> = sequences(2, 4).into_iter().map(|v| v.into_iter().map(|x| x == 1).collect()).collect();
        let a = 0u64;
        let z = a + (all.len() * all.len()) as u64;
        let b = z + 1;
        let c = b + (s2.len() * s2.len() * s2.len()) as u64;
        let d = c + ws_units.len() as u64;
        let e = d + wl.len() as u64;
        let f = e + bools.len() as u64;
        let g = f + s3.len() as u64;
        let end = g + (s2.len() * s2.len()) as u64;
        Space { all, s2, ws_units, w: wl, bools, s3, a, z, b, c, d, e, f, g, end }
    }

    fn t2(&self, idx: usize) -> Tr<'_> {
        let m = self.s2.len();
        [&self.s2[idx / (m * m)], &self.s2[idx / m % m], &self.s2[idx % m]]
    }

    /// is triple `idx` of phase B made of strings with at most one symbol
    fn t2_is_t1(&self, idx: usize) -> bool {
        let m = self.s2.len();
        [idx / (m * m), idx / m % m, idx % m].iter().all(|k| *k < 1 + ALPHA.len())
    }

    fn describe(&self, run: &Run, n: u64) -> Value {
        let len = run.pick(3, 4);
        if n < self.z {
            let (i, p) = ((n as usize) / self.all.len(), (n as usize) % self.all.len());
            json!({"phase": "A spelling / whitespace singletons", "input": self.all[i], "prediction": self.all[p], "target": format!("every string over {ALPHA:?} with at most {len} symbols"), "grid": "use_graphemes x beta x sequence_averaged (x 3 modes for the whitespace F1)"})
        } else if n < self.b {
            json!({"phase": "Z empty lists and lists of different lengths"})
        } else if n < self.c {
            let x = self.t2((n - self.b) as usize);
            json!({"phase": "B spelling lists of two triples", "first_triple": x, "second_triple": run.pick("every triple of strings with at most 1 symbol, both orders", "every triple of strings with at most 2 symbols"), "grid": "use_graphemes x beta x sequence_averaged"})
        } else if n < self.d {
            let (w, bits) = &self.ws_units[(n - self.c) as usize];
            json!({"phase": "C whitespace singletons with equal content", "input": gap_string(w, *bits), "prediction_and_target": "the same content with every gap vector (0/1 space in front of each character and at the end)", "grid": "3 modes x use_graphemes x beta x sequence_averaged"})
        } else if n < self.e {
            json!({"phase": "D whitespace lists of two triples", "first_triple": self.w[(n - self.d) as usize], "second_triple": format!("every whitespace-clean triple with equal content of at most {} characters", run.pick(2, 3)), "grid": "3 modes x use_graphemes x beta x sequence_averaged"})
        } else if n < self.f {
            json!({"phase": "E binary_f1 / accuracy", "predictions": self.bools[(n - self.e) as usize], "targets": "every bool vector with at most 4 entries"})
        } else if n < self.g {
            json!({"phase": "F mean edit distance of one pair", "sequence": self.s3[(n - self.f) as usize], "target": "every string with at most 3 symbols", "grid": "use_graphemes x normalized"})
        } else if n < self.end {
            let k = (n - self.g) as usize;
            json!({"phase": "G mean edit distance of two pairs", "first_pair": [&self.s2[k / self.s2.len()], &self.s2[k % self.s2.len()]], "second_pair": "every pair of strings with at most 2 symbols", "grid": "use_graphemes x normalized"})
        } else if n >= self.end + sequences(2, run.pick(5, 6)).len() as u64 && n < self.end + (sequences(2, run.pick(5, 6)).len() + strings(&WIDE_ALPHA, run.pick(2, 3)).len()) as u64 {
            let k = (n - self.end) as usize - sequences(2, run.pick(5, 6)).len();
            json!({"phase": "I wide symbols", "input": strings(&WIDE_ALPHA, run.pick(2, 3))[k], "prediction_and_target": "every pair of strings over the wide alphabet", "grid": "spelling + 3 whitespace modes x use_graphemes x beta x sequence_averaged; mean (normalized) edit distance of (input, prediction)"})
        } else if n < self.end + sequences(2, run.pick(5, 6)).len() as u64 {
            json!({"phase": "H merged and split words", "content_index": n - self.end, "input_and_prediction": "every pair of spacings of the content", "target": "every spacing (content up to 4 characters) or the input and the prediction", "grid": "use_graphemes x beta x sequence_averaged"})
        } else {
            json!({"error": "no such unit", "units": self.end})
        }
    }
}

fn as_strs(v: &[String]) -> Vec<&str> {
    v.iter().map(|s| s.as_str()).collect()
}

fn strs(v: &Value) -> Vec<String> {
    v.as_array().map(|a| a.iter().map(|x| x.as_str().unwrap_or("").to_string()).collect()).unwrap_or_default()
}

fn replay(run: &mut Run, c: &Value) {
    let g = c["use_graphemes"].as_bool().unwrap_or(true);
    let kind_of = |name: &str, m: &Value| -> Kind {
        if name == "whitespace" {
            Kind::Whitespace(MODES.iter().position(|x| Some(*x) == m.as_str()).expect("unknown mode"))
        } else {
            Kind::Spelling
        }
    };
    match c["kind"].as_str().unwrap_or("") {
        k @ ("spelling" | "whitespace") => {
            let kind = kind_of(k, &c["mode"]);
            let owned: Vec<Vec<String>> = c["triples"].as_array().expect("triples").iter().map(strs).collect();
            let list: Vec<Tr> = owned.iter().map(|t| [t[0].as_str(), t[1].as_str(), t[2].as_str()]).collect();
            if list.len() == 1 {
                eval_single(run, kind, list[0], g, true);
            } else {
                let singles: Vec<Single> = list.iter().map(|t| eval_single(run, kind, *t, g, false)).collect();
                let refs: Vec<&Single> = singles.iter().collect();
                eval_list(run, kind, &list, &refs, g);
            }
        }
        "f1-length-mismatch" => {
            let kind = kind_of(c["function"].as_str().unwrap_or(""), &c["mode"]);
            let (i, p, t) = (strs(&c["inputs"]), strs(&c["predictions"]), strs(&c["targets"]));
            check_f1_length_mismatch(run, kind, &as_strs(&i), &as_strs(&p), &as_strs(&t), g);
        }
        "binary" => {
            let b = |v: &Value| -> Vec<bool> { v.as_array().expect("bool list").iter().map(|x| x.as_bool().unwrap()).collect() };
            check_binary(run, &b(&c["predictions"]), &b(&c["targets"]));
        }
        "mean_edit_distance" => {
            let (a, b) = (strs(&c["sequences"]), strs(&c["targets"]));
            check_med(run, &as_strs(&a), &as_strs(&b), g);
        }
        "mean_edit_distance_invariants" => check_med_invariants(run, c["a"].as_str().unwrap(), c["b"].as_str().unwrap(), g),
        other => panic!("unknown case kind {other:?}"),
    }
}

fn main() {
    // the metrics run on the global rayon pool: one worker per shard process (set before any thread exists)
    std::env::set_var("RAYON_NUM_THREADS", "1");
    let mut run = Run::from_env("C13");
    if let Some(c) = run.replay_case() {
        replay(&mut run, &c);
        run.finish();
    }
    let sp = Space::new(&run);
    if let Some(n) = run.describe_unit() {
        println!("{}", sp.describe(&run, n));
        return;
    }
    let len = run.pick(3, 4);
    run.bounds.insert("alphabet".into(), json!(ALPHA));
    run.bounds.insert("max_symbols_per_string".into(), json!(len));
    run.bounds.insert("strings".into(), json!(sp.all.len()));
    run.bounds.insert("spelling_triples".into(), json!(sp.all.len().pow(3)));
    run.bounds.insert("grid".into(), json!("use_graphemes {false,true} x beta {0.5,1,2} x sequence_averaged {false,true}; whitespace modes insertions / deletions / insertions_and_deletions"));
    run.bounds.insert("spelling_lists".into(), json!(run.pick("lists of 0 and 1 triples; lists of 2: [x,y] and [y,x] for x over the 2197 triples of strings with <= 2 symbols and y over the 64 triples of strings with <= 1 symbol", "lists of 0 and 1 triples; lists of 2: all 2197^2 ordered pairs of triples of strings with <= 2 symbols")));
    run.bounds.insert("whitespace_content".into(), json!(format!("every sequence over {{a,b}} with at most {} characters, 0/1 space in front of each character and at the end, independently for input, prediction and target", run.pick(3, 4))));
    run.bounds.insert("whitespace_units".into(), json!(sp.ws_units.len()));
    run.bounds.insert("whitespace_lists".into(), json!(format!("lists of 0 and 1 triples; lists of 2: all ordered pairs of the {} whitespace-clean equal-content triples with at most {} content characters", sp.w.len(), run.pick(2, 3))));
    run.bounds.insert("bool_vectors".into(), json!("all ordered pairs of bool vectors with at most 4 entries (equal and different lengths) x beta"));
    run.bounds.insert("mean_edit_distance".into(), json!("single pairs: all ordered pairs of strings with <= 3 symbols; lists of 2: all ordered pairs of pairs of strings with <= 2 symbols; lists of 0; lists of different lengths; x use_graphemes x normalized"));
    run.bounds.insert("units".into(), json!(sp.end));
    run.extra.insert(
        "rule".into(),
        json!("one evaluation = one list of triples (or of bool / string pairs) x use_graphemes (x whitespace mode), on which the function is called for every beta x sequence_averaged; exhaustive in shortlex order over the stated sets. Non-trivial: a singleton whose counts are not all zero (whitespace: ground-truth or predicted operation set non-empty); a list whose summed counts are not all zero and whose members have different counts; a bool pair with tp+fp+fn > 0; a string list with positive summed distance."),
    );
    run.assumptions.push("verif_spelling_tp_fp_fn / verif_whitespace_tp_fp_fn return the per-sequence counts the public functions aggregate (the singleton micro law ties them to the public result)".into());
    run.assumptions.push("whitespace::operations on whitespace-clean strings with equal content is the ground-truth operation sequence (checked by C10)".into());
    run.assumptions.push("on the alphabet {a,b,' '} cleaning is split-on-whitespace / join-with-one-space and NFKC is the identity (checked by C11)".into());
    run.assumptions.push("refs::edit_distance is the reference metric of C12".into());

    let n = sp.all.len();
    // ---- phase H: merged and split words. Input and prediction are two spacings of the same content
    // (the prediction only moves word boundaries), up to one symbol more than phase A's strings; the
    // target is the input, the prediction, or every third spacing. Units follow all other phases.
    {
        let contents = sequences(2, run.pick(5, 6));
        let spacings = |w: &Vec<usize>| -> Vec<String> { (0..(1u32 << w.len().saturating_sub(1))).map(|b| inner_gap_string(w, b)).collect() };
        for (ci, w) in contents.iter().enumerate() {
            if w.len() < 2 || !run.unit(sp.end + ci as u64) {
                continue;
            }
            let sps = spacings(w);
            for i in &sps {
                for p in &sps {
                    let third: Vec<&String> = if w.len() <= 4 { sps.iter().collect() } else { vec![i, p] };
                    for t in third {
                        for g in [false, true] {
                            eval_single(&mut run, Kind::Spelling, [i.as_str(), p.as_str(), t.as_str()], g, true);
                        }
                    }
                }
            }
        }
    }
    // ---- phase I: the singletons of phase A and the single pairs of phase F over symbols that are
    // not one byte / not one code point each (NFKC leaves all of them alone): a two-byte letter, a
    // four-byte emoji, and a cluster of two code points that no normalisation composes. Units follow
    // phase H's.
    {
        let contents_h = sequences(2, run.pick(5, 6)).len() as u64;
        for sym in WIDE_ALPHA {
            assert_eq!(text_utils::unicode::normalize(sym, text_utils::unicode::Normalization::NFKC, true), sym);
        }
        let wide = strings(&WIDE_ALPHA, run.pick(2, 3));
        run.bounds.insert("wide_alphabet".into(), json!(WIDE_ALPHA));
        run.bounds.insert("wide_strings".into(), json!(format!("{} strings with at most {} symbols: all triples as spelling / whitespace singletons, all ordered pairs for the mean edit distances", wide.len(), run.pick(2, 3))));
        for (ii, i) in wide.iter().enumerate() {
            if !run.unit(sp.end + contents_h + ii as u64) {
                continue;
            }
            for p in &wide {
                run.tick();
                for t in &wide {
                    let tr: Tr = [i, p, t];
                    for g in [false, true] {
                        eval_single(&mut run, Kind::Spelling, tr, g, true);
                        for m in 0..3 {
                            eval_single(&mut run, Kind::Whitespace(m), tr, g, true);
                        }
                    }
                }
                for g in [false, true] {
                    check_med(&mut run, &[i.as_str()], &[p.as_str()], g);
                }
            }
        }
    }
    // ---- phase K: symbols that NFKC rewrites (a ligature -> two letters, a spacing accent -> a space
    // and a combining mark): input, prediction and target go through the same normalisation, so every
    // law of the statement holds for them as for any other text. Units follow phase J's.
    {
        let nk = strings(&["\u{fb01}", "a", " ", "\u{b4}"], run.pick(2, 3));
        run.bounds.insert("nfkc_phase".into(), json!(format!("all triples of the {} strings over [ligature fi, a, space, U+00B4] with at most {} symbols: spelling singletons, whitespace singletons, mean edit distances of all pairs; x use_graphemes", nk.len(), run.pick(2, 3))));
        let base_k = sp.end + (sequences(2, run.pick(5, 6)).len() + strings(&WIDE_ALPHA, run.pick(2, 3)).len() + tu_verif::enumerate::threshold_lengths(run.pick(6, 8)).len()) as u64;
        for (ii, i) in nk.iter().enumerate() {
            if !run.unit(base_k + ii as u64) {
                continue;
            }
            for p in &nk {
                run.tick();
                for t in &nk {
                    let tr: Tr = [i, p, t];
                    for g in [false, true] {
                        eval_single(&mut run, Kind::Spelling, tr, g, true);
                        for m in 0..3 {
                            eval_single(&mut run, Kind::Whitespace(m), tr, g, true);
                        }
                    }
                }
            }
        }
    }
    // ---- phase J: long sequences (word counts around the powers of two a size threshold would sit
    // at): the target is a repeated word pattern, the input has one wrong word at the start, in the
    // middle or at the end, the prediction is the target, the input, or has a different wrong word
    {
        let lens = tu_verif::enumerate::threshold_lengths(run.pick(6, 8));
        run.bounds.insert("long_phase".into(), json!(format!("word counts {lens:?} x 2 word patterns x 3 positions of the input's error x 3 predictions x use_graphemes (spelling F1 singletons; mean edit distances of (input, target))")));
        let base_j = sp.end + (sequences(2, run.pick(5, 6)).len() + strings(&WIDE_ALPHA, run.pick(2, 3)).len()) as u64;
        for (k, nw) in lens.iter().enumerate() {
            if !run.unit(base_j + k as u64) {
                continue;
            }
            for pat in [&["a", "b"][..], &["ab", "a", "ba", "b"][..]] {
                let words: Vec<&str> = (0..*nw).map(|i| pat[i % pat.len()]).collect();
                let target = words.join(" ");
                for pos in [0, *nw / 2, *nw - 1] {
                    let mut w = words.clone();
                    w[pos] = "x";
                    let input = w.join(" ");
                    let mut w2 = words.clone();
                    w2[(pos + 1) % *nw] = "y";
                    let other = w2.join(" ");
                    for pred in [&target, &input, &other] {
                        for g in [false, true] {
                            eval_single(&mut run, Kind::Spelling, [input.as_str(), pred.as_str(), target.as_str()], g, true);
                        }
                    }
                    for g in [false, true] {
                        check_med(&mut run, &[input.as_str()], &[target.as_str()], g);
                    }
                }
            }
        }
    }
    // ---- phase A
    for ii in 0..n {
        for pi in 0..n {
            if !run.unit(sp.a + (ii * n + pi) as u64) {
                continue;
            }
            if run.out_of_time() {
                break;
            }
            for ti in 0..n {
                let t: Tr = [&sp.all[ii], &sp.all[pi], &sp.all[ti]];
                for g in [false, true] {
                    eval_single(&mut run, Kind::Spelling, t, g, true);
                    for m in 0..3 {
                        eval_single(&mut run, Kind::Whitespace(m), t, g, true);
                    }
                }
            }
        }
    }
    // ---- phase Z
    if run.unit(sp.z) {
        // (reading-independent clauses of the mean edit distance on strings with clusters that mix
        // whitespace and a combining mark)
        let mixed = strings(&["a", " ", "\u{301}", "b"], run.pick(3, 4));
        run.bounds.insert("mean_distance_invariants".into(), json!(format!("every ordered pair of the {} strings of at most {} symbols over [a, space, U+0301, b] x use_graphemes: distance 0 from itself, symmetric", mixed.len(), run.pick(3, 4))));
        for a in &mixed {
            for b in &mixed {
                for g in [false, true] {
                    check_med_invariants(&mut run, a, b, g);
                }
            }
            run.tick();
        }
        for g in [false, true] {
            eval_list(&mut run, Kind::Spelling, &[], &[], g);
            for m in 0..3 {
                eval_list(&mut run, Kind::Whitespace(m), &[], &[], g);
            }
            for kind in [Kind::Spelling, Kind::Whitespace(2)] {
                check_f1_length_mismatch(&mut run, kind, &["a"], &[], &[], g);
                check_f1_length_mismatch(&mut run, kind, &[], &["a"], &[], g);
                check_f1_length_mismatch(&mut run, kind, &[], &[], &["a"], g);
                check_f1_length_mismatch(&mut run, kind, &["a", "a b"], &["a"], &["a", "a b"], g);
                check_f1_length_mismatch(&mut run, kind, &["a", "a b"], &["a", "ab"], &["a"], g);
            }
            check_med(&mut run, &[], &[], g);
            check_med(&mut run, &["a"], &[], g);
            check_med(&mut run, &[], &["a"], g);
            check_med(&mut run, &["a", "b"], &["a"], g);
        }
        check_binary(&mut run, &[], &[]);
    }
    // ---- phase B
    let nt2 = sp.s2.len().pow(3);
    let mut cache_b: Vec<[Single; 2]> = vec![];
    for x in 0..nt2 {
        if !run.unit(sp.b + x as u64) {
            continue;
        }
        if run.out_of_time() {
            break;
        }
        if cache_b.is_empty() {
            // singleton counts and sequence-averaged values of every triple (not counted, not reported:
            // the same triples are evaluated and reported in phase A)
            for k in 0..nt2 {
                cache_b.push([eval_single(&mut run, Kind::Spelling, sp.t2(k), false, false), eval_single(&mut run, Kind::Spelling, sp.t2(k), true, false)]);
                run.tick();
            }
        }
        let tx = sp.t2(x);
        for y in 0..nt2 {
            if run.quick() && !sp.t2_is_t1(y) {
                continue;
            }
            let ty = sp.t2(y);
            for g in [false, true] {
                let (sx, sy) = (&cache_b[x][g as usize], &cache_b[y][g as usize]);
                eval_list(&mut run, Kind::Spelling, &[tx, ty], &[sx, sy], g);
                if run.quick() && !sp.t2_is_t1(x) {
                    eval_list(&mut run, Kind::Spelling, &[ty, tx], &[sy, sx], g);
                }
            }
            run.tick();
        }
    }
    drop(cache_b);
    // ---- phase C
    for (u, (w, bits_i)) in sp.ws_units.iter().enumerate() {
        if !run.unit(sp.c + u as u64) {
            continue;
        }
        if run.out_of_time() {
            break;
        }
        let si = gap_string(w, *bits_i);
        let nb = 1u32 << (w.len() + 1);
        for bp in 0..nb {
            let spr = gap_string(w, bp);
            for bt in 0..nb {
                let st = gap_string(w, bt);
                for m in 0..3 {
                    for g in [false, true] {
                        eval_single(&mut run, Kind::Whitespace(m), [&si, &spr, &st], g, true);
                    }
                }
            }
            run.tick();
        }
    }
    // ---- phase D
    let mut cache_d: Vec<[Single; 6]> = vec![];
    for x in 0..sp.w.len() {
        if !run.unit(sp.d + x as u64) {
            continue;
        }
        if run.out_of_time() {
            break;
        }
        let tr = |k: usize| -> Tr { [&sp.w[k][0], &sp.w[k][1], &sp.w[k][2]] };
        if cache_d.is_empty() {
            for k in 0..sp.w.len() {
                cache_d.push(std::array::from_fn(|j| eval_single(&mut run, Kind::Whitespace(j / 2), tr(k), j % 2 == 1, false)));
                run.tick();
            }
        }
        for y in 0..sp.w.len() {
            for m in 0..3 {
                for g in [false, true] {
                    let j = 2 * m + g as usize;
                    eval_list(&mut run, Kind::Whitespace(m), &[tr(x), tr(y)], &[&cache_d[x][j], &cache_d[y][j]], g);
                }
            }
            run.tick();
        }
    }
    drop(cache_d);
    // ---- phase E
    for (u, p) in sp.bools.iter().enumerate() {
        if !run.unit(sp.e + u as u64) {
            continue;
        }
        for t in &sp.bools {
            check_binary(&mut run, p, t);
        }
    }
    // ---- phase F
    for (u, a) in sp.s3.iter().enumerate() {
        if !run.unit(sp.f + u as u64) {
            continue;
        }
        for b in &sp.s3 {
            for g in [false, true] {
                check_med(&mut run, &[a.as_str()], &[b.as_str()], g);
            }
        }
    }
    // ---- phase G
    let m = sp.s2.len();
    for u in 0..m * m {
        if !run.unit(sp.g + u as u64) {
            continue;
        }
        if run.out_of_time() {
            break;
        }
        let (a1, b1) = (sp.s2[u / m].as_str(), sp.s2[u % m].as_str());
        for a2 in &sp.s2 {
            for b2 in &sp.s2 {
                for g in [false, true] {
                    check_med(&mut run, &[a1, a2.as_str()], &[b1, b2.as_str()], g);
                }
            }
        }
    }
    run.finish();
}
