//! C01 — byte and character tokenizers encode every character faithfully and losslessly.
//! Engine A: all strings over two alphabets (multi-byte / combining / CRLF / ZWJ symbols, and
//! special-token spellings with their look-alike fragments) x the tokenizer configuration grid, each
//! compared with a reference scanner written from the statement (DESIGN 5/C01).
//!
//! Readings taken (DESIGN 6, weakest reading):
//! * "its single special id" is the id at which the vocabulary lists the special token's spelling;
//! * the round trip decodes the ids *between* the prefix and the suffix ids;
//! * the character tokenizer's alphabet is the set of single-code-point vocabulary entries that are
//!   not special tokens.
//! Stated domain: the special-token set is prefix-free and overlap-free (checked by a predicate), so
//! the parse of a text into special tokens and ordinary text is unique.
use serde_json::{json, Value};
use std::collections::HashMap;
use text_utils::tokenization::{
    ByteGroups, ByteTokenizer, ByteTokenizerConfig, CharTokenizer, CharTokenizerConfig, GroupAggregation, SpecialConfig,
    Tokenize,
};
use tu_verif::guard::catch;
use tu_verif::refs;
use tu_verif::run::Run;

/// multi-byte characters of every UTF-8 length, a combining mark, CR, LF, ZWJ and two emoji that
/// form a ZWJ sequence
const SIGMA1: [&str; 11] = ["a", " ", "ä", "€", "😀", "\u{301}", "\r", "\n", "\u{200d}", "👩", "💻"];
/// special-token spellings and their look-alike fragments next to multi-byte text
const FRAGMENT_SETS: [[&str; 10]; 4] = [
    ["<pad>", "<bos>", "<unk>", "<pa", "pad>", "<", ">", "ä", "a", "😀"],
    // for the special-token set with regular-expression metacharacters: the spellings themselves,
    // pieces of them, and texts an unescaped pattern would match ("B" for the class [B+S], "<eas" for
    // the dot, "x>" for the alternation and the question mark)
    ["[B+S]", "<e.s|x?>", "<unk>", "[B", "S]", "<eas|x?>", "B", "x>", "e", "ä"],
    // for the special-token set whose bos and eos are a single byte each ("|" and LF): the byte ids of
    // these bytes and the special ids of these tokens are different numbers
    ["|", "\n", "<pad>", "<unk>", "a", "ä", "<", "pad>", " ", "\r"],
    // for the configured list with repeated entries (same spellings as the first set)
    ["<pad>", "<bos>", "<unk>", "<eos>", "pad>", "<", ">", "ä", "a", "😀"],
];
/// symbols of the character tokenizer's alphabet (round trip)
const SIGMA3: [&str; 7] = ["a", "Z", "0", "\"", "\\", " ", "~"];
/// special-token sets [unk, bos, eos, pad]; the second one spells bos and eos with characters that
/// are regular-expression metacharacters ([ ] + . | ?)
const SPECIAL_SETS: [[&str; 4]; 4] = [["<unk>", "<bos>", "<eos>", "<pad>"], ["<unk>", "[B+S]", "<e.s|x?>", "<pad>"], ["<unk>", "|", "\n", "<pad>"], ["<unk>", "<bos>", "<eos>", "<pad>"]];
static VARIANT: std::sync::atomic::AtomicUsize = std::sync::atomic::AtomicUsize::new(0);

fn variant() -> usize {
    VARIANT.load(std::sync::atomic::Ordering::Relaxed)
}
fn specials() -> &'static [&'static str; 4] {
    &SPECIAL_SETS[variant()]
}
fn fragments() -> &'static [&'static str; 10] {
    &FRAGMENT_SETS[variant()]
}
const UNK: &str = "<unk>";
const PAD: &str = "<pad>";

/// prefix / suffix lists, including lists of different lengths and lists of several *different*
/// tokens (their order must be kept)
fn affixes() -> [(Vec<&'static str>, Vec<&'static str>); 4] {
    let [_, bos, eos, pad] = *specials();
    [(vec![], vec![]), (vec![bos], vec![eos]), (vec![bos, pad], vec![eos]), (vec![], vec![eos, pad])]
}

// ---------------------------------------------------------------------------------------------
// enumeration
// ---------------------------------------------------------------------------------------------

/// number of strings over an alphabet of `n` symbols with at most `max_len` symbols
fn count_strings(n: usize, max_len: usize) -> u64 {
    (0..=max_len as u32).map(|k| (n as u64).pow(k)).sum()
}

/// the `idx`-th string over `alpha` in shortlex order (same order as `enumerate::strings`)
fn nth_string(alpha: &[&str], mut idx: u64) -> String {
    let n = alpha.len() as u64;
    let (mut len, mut block) = (0usize, 1u64);
    while idx >= block {
        idx -= block;
        block *= n;
        len += 1;
    }
    let mut digits = vec![0usize; len];
    for d in digits.iter_mut().rev() {
        *d = (idx % n) as usize;
        idx /= n;
    }
    digits.iter().map(|d| alpha[*d]).collect()
}

struct Space {
    n1: u64,
    n2: u64,
    n3: u64,
    chunk: u64,
}

impl Space {
    fn total(&self) -> u64 {
        self.n1 + self.n2 + self.n3
    }
    fn units(&self) -> u64 {
        self.total().div_ceil(self.chunk)
    }
    /// (alphabet name, string, whether the byte tokenizers are run on it)
    fn get(&self, i: u64) -> (&'static str, String, bool) {
        if i < self.n1 {
            ("sigma1", nth_string(&SIGMA1, i), true)
        } else if i < self.n1 + self.n2 {
            ("fragments", nth_string(fragments(), i - self.n1), true)
        } else {
            ("char-alphabet", nth_string(&SIGMA3, i - self.n1 - self.n2), false)
        }
    }
}

// ---------------------------------------------------------------------------------------------
// reference
// ---------------------------------------------------------------------------------------------

#[derive(Clone, Copy, Debug, PartialEq)]
enum Seg<'a> {
    Special(&'a str),
    Regular(&'a str),
}

/// Reference scanner: left to right; at each position a special token spelled there is one special
/// segment, everything else is ordinary text.
fn scan<'a>(s: &'a str, specials: &[&str]) -> Vec<Seg<'a>> {
    let mut segs = vec![];
    let (mut i, mut start) = (0usize, 0usize);
    while i < s.len() {
        if let Some(sp) = specials.iter().find(|sp| s[i..].starts_with(**sp)) {
            if start < i {
                segs.push(Seg::Regular(&s[start..i]));
            }
            segs.push(Seg::Special(&s[i..i + sp.len()]));
            i += sp.len();
            start = i;
        } else {
            i += s[i..].chars().next().map(char::len_utf8).unwrap_or(1);
        }
    }
    if start < s.len() {
        segs.push(Seg::Regular(&s[start..]));
    }
    segs
}

/// Domain predicate: no token is empty, a prefix of another token, or overlaps another occurrence
/// (a proper suffix of one token being a proper prefix of a token) — then every reading of
/// "special-token occurrence" gives the same parse.
fn unambiguous(tokens: &[&str]) -> bool {
    for (i, a) in tokens.iter().enumerate() {
        if a.is_empty() {
            return false;
        }
        for (j, b) in tokens.iter().enumerate() {
            if i != j && b.starts_with(a) {
                return false;
            }
            for k in 1..a.len() {
                if a.is_char_boundary(k) && b.starts_with(&a[k..]) {
                    return false;
                }
            }
        }
    }
    true
}

/// the string as the two segmentations a tokenizer may be asked for
struct Prepared<'a> {
    s: &'a str,
    parsed: Vec<Seg<'a>>,
    plain: Vec<Seg<'a>>,
    nontrivial: bool,
}

impl<'a> Prepared<'a> {
    fn new(s: &'a str) -> Self {
        Prepared {
            s,
            parsed: scan(s, specials()),
            plain: if s.is_empty() { vec![] } else { vec![Seg::Regular(s)] },
            nontrivial: !s.is_ascii() || s.contains('<') || s.contains('>'),
        }
    }
    fn segs(&self, ignore_special: bool) -> &[Seg<'a>] {
        if ignore_special {
            &self.plain
        } else {
            &self.parsed
        }
    }
}

// ---------------------------------------------------------------------------------------------
// subjects
// ---------------------------------------------------------------------------------------------

#[derive(Clone, Debug)]
struct ByteCfg {
    graphemes: bool,
    code_point_groups: bool,
    pad_to: Option<usize>,
    prefix: Vec<String>,
    suffix: Vec<String>,
}

#[derive(Clone, Debug)]
struct CharCfg {
    graphemes: bool,
    prefix: Vec<String>,
    suffix: Vec<String>,
}

fn byte_cfg_json(c: &ByteCfg) -> Value {
    json!({"use_graphemes": c.graphemes, "groups": if c.code_point_groups { "code_points" } else { "bytes" },
           "pad_to_multiple_of": c.pad_to, "special_tokens": specials(), "special_token_list_has_repeated_entries": variant() == 3, "pad": PAD, "prefix": c.prefix, "suffix": c.suffix})
}

fn char_cfg_json(c: &CharCfg) -> Value {
    json!({"use_graphemes": c.graphemes, "unk_token": UNK, "special_tokens": specials(), "special_token_list_has_repeated_entries": variant() == 3, "pad": PAD, "prefix": c.prefix, "suffix": c.suffix})
}

fn strs(v: &Value) -> Vec<String> {
    v.as_array().map(|a| a.iter().map(|x| x.as_str().unwrap_or_default().to_string()).collect()).unwrap_or_default()
}

fn byte_cfg_from(v: &Value) -> ByteCfg {
    ByteCfg {
        graphemes: v["use_graphemes"].as_bool().unwrap(),
        code_point_groups: v["groups"] == "code_points",
        pad_to: v["pad_to_multiple_of"].as_u64().map(|x| x as usize),
        prefix: strs(&v["prefix"]),
        suffix: strs(&v["suffix"]),
    }
}

fn char_cfg_from(v: &Value) -> CharCfg {
    CharCfg { graphemes: v["use_graphemes"].as_bool().unwrap(), prefix: strs(&v["prefix"]), suffix: strs(&v["suffix"]) }
}

fn byte_cfgs() -> Vec<ByteCfg> {
    let mut out = vec![];
    for graphemes in [false, true] {
        for code_point_groups in [false, true] {
            for pad_to in [None, Some(128usize)] {
                for (p, s) in affixes() {
                    out.push(ByteCfg {
                        graphemes,
                        code_point_groups,
                        pad_to,
                        prefix: p.iter().map(|x| x.to_string()).collect(),
                        suffix: s.iter().map(|x| x.to_string()).collect(),
                    });
                }
            }
        }
    }
    out
}

fn char_cfgs() -> Vec<CharCfg> {
    let mut out = vec![];
    for graphemes in [false, true] {
        for (p, s) in affixes() {
            out.push(CharCfg {
                graphemes,
                prefix: p.iter().map(|x| x.to_string()).collect(),
                suffix: s.iter().map(|x| x.to_string()).collect(),
            });
        }
    }
    out
}

fn special_config(prefix: &[String], suffix: &[String]) -> SpecialConfig {
    let [unk, bos, eos, pad] = *specials();
    // the fourth variant configures the list with repeated entries in front of the tokens that the
    // prefix / suffix lists use (positions in the raw list and ids in the vocabulary then differ)
    let tokens: Vec<&str> = if variant() == 3 { vec![unk, unk, bos, unk, eos, bos, pad, eos] } else { vec![unk, bos, eos, pad] };
    SpecialConfig { pad: PAD.to_string(), tokens: tokens.iter().map(|s| s.to_string()).collect(), prefix: prefix.to_vec(), suffix: suffix.to_vec() }
}

/// The id of every configured special token: the unique position at which the vocabulary lists its
/// spelling, which `token_to_id` must agree with.
fn resolve_specials(tok: &dyn Tokenize) -> Result<(Vec<Vec<u8>>, HashMap<String, u32>), String> {
    let vocab = catch(|| tok.get_vocab()).map_err(|p| format!("get_vocab panicked: {p}"))?.map_err(|e| format!("get_vocab failed: {e}"))?;
    let mut ids = HashMap::new();
    for sp in *specials() {
        let at: Vec<usize> = (0..vocab.len()).filter(|i| vocab[*i] == sp.as_bytes()).collect();
        // a special token may be spelled like a regular token (a one-byte special token and the byte
        // token of that byte): the special ids follow the regular ones, so the special id is the last
        // listing; what token_to_id answers for such a spelling is C04's business, not C01's
        let Some(&last) = at.last() else {
            return Err(format!("the vocabulary does not list {sp:?}"));
        };
        if at.len() == 1 {
            let via = catch(|| tok.token_to_id(sp)).map_err(|p| format!("token_to_id panicked: {p}"))?;
            if via != Some(last as u32) {
                return Err(format!("the vocabulary lists {sp:?} at id {last}, token_to_id gives {via:?}"));
            }
        }
        ids.insert(sp.to_string(), last as u32);
    }
    Ok((vocab, ids))
}

struct ByteSubject {
    case_cfg: Value,
    tok: ByteTokenizer,
    special: HashMap<String, u32>,
    prefix: Vec<u32>,
    suffix: Vec<u32>,
}

struct CharSubject {
    cfg: CharCfg,
    case_cfg: Value,
    tok: CharTokenizer,
    special: HashMap<String, u32>,
    alphabet: HashMap<char, u32>,
    unk: u32,
    prefix: Vec<u32>,
    suffix: Vec<u32>,
}

fn case_json(kind: &str, cfg: &Value, s: &str, ignore_special: bool) -> Value {
    json!({"tokenizer": kind, "config": cfg, "s": s, "ignore_special_tokens": ignore_special})
}

fn build_byte(run: &mut Run, cfg: &ByteCfg) -> Option<ByteSubject> {
    let case_cfg = byte_cfg_json(cfg);
    let case = || case_json("byte", &case_cfg, "", false);
    run.calls += 1;
    let config = ByteTokenizerConfig {
        use_graphemes: cfg.graphemes,
        pad_to_multiple_of: cfg.pad_to,
        groups: if cfg.code_point_groups { ByteGroups::CodePoints } else { ByteGroups::Bytes },
        aggregation: GroupAggregation::Mean,
    };
    let tok = match catch(|| ByteTokenizer::new(config, special_config(&cfg.prefix, &cfg.suffix))) {
        Err(p) => {
            run.violation("no-panic", "", case(), format!("ByteTokenizer::new panicked: {p}"));
            return None;
        }
        Ok(Err(e)) => {
            run.violation("tokenizer-builds", "", case(), format!("ByteTokenizer::new failed: {e}"));
            return None;
        }
        Ok(Ok(t)) => t,
    };
    let (_, special) = match resolve_specials(&tok) {
        Err(e) => {
            run.violation("special-ids-resolvable", "", case(), e);
            return None;
        }
        Ok(x) => x,
    };
    if let Some((sp, id)) = special.iter().find(|(_, id)| **id < 256) {
        run.violation("special-ids-resolvable", "", case(), format!("special token {sp:?} has id {id}, which is a byte id"));
        return None;
    }
    let prefix = cfg.prefix.iter().map(|t| special[t]).collect();
    let suffix = cfg.suffix.iter().map(|t| special[t]).collect();
    Some(ByteSubject { case_cfg: case_cfg.clone(), tok, special, prefix, suffix })
}

fn build_char(run: &mut Run, cfg: &CharCfg) -> Option<CharSubject> {
    let case_cfg = char_cfg_json(cfg);
    let case = || case_json("char", &case_cfg, "", false);
    run.calls += 1;
    let config = CharTokenizerConfig { use_graphemes: cfg.graphemes, unk_token: UNK.to_string() };
    let tok = match catch(|| CharTokenizer::new(config, special_config(&cfg.prefix, &cfg.suffix))) {
        Err(p) => {
            run.violation("no-panic", "", case(), format!("CharTokenizer::new panicked: {p}"));
            return None;
        }
        Ok(Err(e)) => {
            run.violation("tokenizer-builds", "", case(), format!("CharTokenizer::new failed: {e}"));
            return None;
        }
        Ok(Ok(t)) => t,
    };
    let (vocab, special) = match resolve_specials(&tok) {
        Err(e) => {
            run.violation("special-ids-resolvable", "", case(), e);
            return None;
        }
        Ok(x) => x,
    };
    // the alphabet: single-code-point vocabulary entries that are not the special listing of a token
    let mut alphabet = HashMap::new();
    for (id, t) in vocab.iter().enumerate() {
        if let Ok(t) = std::str::from_utf8(t) {
            let mut cs = t.chars();
            if let (Some(c), None) = (cs.next(), cs.next()) {
                // (an entry spelled like a special token is a character of the alphabet when its id
                // is not that token's special id; the first listing of a character wins)
                if special.get(t) != Some(&(id as u32)) {
                    alphabet.entry(c).or_insert(id as u32);
                }
            }
        }
    }
    if let Some(missing) = SIGMA3.iter().find(|c| !alphabet.contains_key(&c.chars().next().unwrap())) {
        run.violation("alphabet-contains-ascii", "", case(), format!("the vocabulary has no token for {missing:?}"));
        return None;
    }
    let unk = special[UNK];
    let prefix = cfg.prefix.iter().map(|t| special[t]).collect();
    let suffix = cfg.suffix.iter().map(|t| special[t]).collect();
    Some(CharSubject { cfg: cfg.clone(), case_cfg: case_cfg.clone(), tok, special, alphabet, unk, prefix, suffix })
}

// ---------------------------------------------------------------------------------------------
// checks
// ---------------------------------------------------------------------------------------------

fn check_byte(run: &mut Run, sub: &ByteSubject, p: &Prepared, ign: bool) {
    run.evaluations += 1;
    if p.nontrivial {
        run.nontrivial += 1;
    }
    let case = || case_json("byte", &sub.case_cfg, p.s, ign);
    run.sample(case);
    // reference ids
    let mut expect: Vec<u32> = Vec::with_capacity(p.s.len() + sub.prefix.len() + sub.suffix.len());
    expect.extend(&sub.prefix);
    for seg in p.segs(ign) {
        match seg {
            Seg::Special(sp) => expect.push(sub.special[*sp]),
            Seg::Regular(x) => expect.extend(x.bytes().map(u32::from)),
        }
    }
    expect.extend(&sub.suffix);
    run.calls += 1;
    let ids = match catch(|| sub.tok.tokenize(p.s, ign)) {
        Err(e) => return run.violation("no-panic", "", case(), format!("tokenize panicked: {e}")),
        Ok(Err(e)) => return run.violation("tokenize-succeeds", "", case(), format!("tokenize failed: {e}")),
        Ok(Ok(t)) => t.token_ids,
    };
    run.compared += 1;
    if ids != expect {
        return run.violation("ids-are-prefix-bytes-suffix", "", case(), format!("token ids {ids:?}, reference {expect:?}"));
    }
    let mid = &ids[sub.prefix.len()..ids.len() - sub.suffix.len()];
    run.calls += 1;
    match catch(|| sub.tok.de_tokenize(mid, false)) {
        Err(e) => run.violation("no-panic", "", case(), format!("de_tokenize panicked: {e}")),
        Ok(Err(e)) => run.violation("round-trip", "", case(), format!("de_tokenize({mid:?}) failed: {e}")),
        Ok(Ok(back)) => {
            run.compared += 1;
            if back != p.s {
                run.violation("round-trip", "", case(), format!("de_tokenize({mid:?}) = {back:?}"));
            }
        }
    }
}

fn check_char(run: &mut Run, sub: &CharSubject, p: &Prepared, ign: bool) {
    run.evaluations += 1;
    if p.nontrivial {
        run.nontrivial += 1;
    }
    let case = || case_json("char", &sub.case_cfg, p.s, ign);
    run.sample(case);
    // reference: one id per character; unknown iff outside the alphabet (or more than one code point)
    let mut expect: Vec<u32> = sub.prefix.clone();
    let mut over_alphabet = true;
    for seg in p.segs(ign) {
        match seg {
            Seg::Special(sp) => expect.push(sub.special[*sp]),
            Seg::Regular(x) => {
                for c in refs::chars(x, sub.cfg.graphemes) {
                    let mut cps = c.chars();
                    let id = match (cps.next(), cps.next()) {
                        (Some(cp), None) => sub.alphabet.get(&cp).copied(),
                        _ => None,
                    };
                    over_alphabet &= id.is_some();
                    expect.push(id.unwrap_or(sub.unk));
                }
            }
        }
    }
    expect.extend(&sub.suffix);
    run.calls += 1;
    let ids = match catch(|| sub.tok.tokenize(p.s, ign)) {
        Err(e) => return run.violation("no-panic", "", case(), format!("tokenize panicked: {e}")),
        Ok(Err(e)) => return run.violation("tokenize-succeeds", "", case(), format!("tokenize failed: {e}")),
        Ok(Ok(t)) => t.token_ids,
    };
    run.compared += 1;
    if ids.len() != expect.len() {
        return run.violation("one-id-per-character", "", case(), format!("{} token ids {ids:?}, reference has {} {expect:?}", ids.len(), expect.len()));
    }
    if ids.iter().zip(&expect).any(|(a, b)| (*a == sub.unk) != (*b == sub.unk)) {
        return run.violation("unknown-iff-outside-alphabet", "", case(), format!("token ids {ids:?}, reference {expect:?} (unknown id {})", sub.unk));
    }
    if ids != expect {
        return run.violation("ids-faithful", "", case(), format!("token ids {ids:?}, reference {expect:?}"));
    }
    if over_alphabet {
        let mid = &ids[sub.prefix.len()..ids.len() - sub.suffix.len()];
        run.calls += 1;
        match catch(|| sub.tok.de_tokenize(mid, false)) {
            Err(e) => run.violation("no-panic", "", case(), format!("de_tokenize panicked: {e}")),
            Ok(Err(e)) => run.violation("round-trip", "", case(), format!("de_tokenize({mid:?}) failed: {e}")),
            Ok(Ok(back)) => {
                run.compared += 1;
                if back != p.s {
                    run.violation("round-trip", "", case(), format!("de_tokenize({mid:?}) = {back:?}"));
                }
            }
        }
    }
}

fn main() {
    let mut run = Run::from_env("C01");
    for set in &SPECIAL_SETS {
        assert!(unambiguous(set), "the special-token sets must be prefix-free and overlap-free");
    }
    if let Some(c) = run.replay_case() {
        let recorded = strs(&c["config"]["special_tokens"]);
        let v = SPECIAL_SETS.iter().position(|set| set.iter().map(|x| x.to_string()).collect::<Vec<_>>() == recorded).unwrap_or(0);
        let v = if c["config"]["special_token_list_has_repeated_entries"].as_bool().unwrap_or(false) { 3 } else { v };
        VARIANT.store(v, std::sync::atomic::Ordering::Relaxed);
        let s = c["s"].as_str().unwrap().to_string();
        let ign = c["ignore_special_tokens"].as_bool().unwrap();
        let p = Prepared::new(&s);
        if c["tokenizer"] == "byte" {
            if let Some(sub) = build_byte(&mut run, &byte_cfg_from(&c["config"])) {
                check_byte(&mut run, &sub, &p, ign);
            }
        } else if let Some(sub) = build_char(&mut run, &char_cfg_from(&c["config"])) {
            check_char(&mut run, &sub, &p, ign);
        }
        run.finish();
    }
    let (l1, l2, l3) = (run.pick(5, 6), run.pick(5, 6), run.pick(5, 6));
    let space = Space {
        n1: count_strings(SIGMA1.len(), l1),
        n2: count_strings(FRAGMENT_SETS[0].len(), l2),
        n3: count_strings(SIGMA3.len(), l3),
        chunk: run.pick(256, 2048),
    };
    // second pass: the special-token set with metacharacters, on its fragment alphabet only
    let space2 = Space { n1: 0, n2: count_strings(FRAGMENT_SETS[1].len(), l2), n3: 0, chunk: space.chunk };
    // third pass: the set with one-byte special tokens, on its fragment alphabet (one symbol shorter)
    let space3 = Space { n1: 0, n2: count_strings(FRAGMENT_SETS[2].len(), l2 - 1), n3: 0, chunk: space.chunk };
    // fourth pass: the default spellings configured as a list with repeated entries (two symbols shorter)
    let space4 = Space { n1: 0, n2: count_strings(FRAGMENT_SETS[3].len(), l2 - 2), n3: 0, chunk: space.chunk };
    if let Some(n) = run.describe_unit() {
        if n >= space.units() + space2.units() + space3.units() + space4.units() {
            println!("{}", json!({"long_phase_length_index": n - space.units() - space2.units() - space3.units() - space4.units(), "lengths": tu_verif::enumerate::threshold_lengths(run.pick(8, 10))}));
            return;
        }
        if n >= space.units() + space2.units() {
            println!("{}", json!({"special_tokens": SPECIAL_SETS[2], "fragment_strings_chunk": n - space.units() - space2.units(), "chunk": space.chunk}));
            return;
        }
        if n >= space.units() {
            println!("{}", json!({"special_tokens": SPECIAL_SETS[1], "fragment_strings_chunk": n - space.units(), "chunk": space.chunk}));
            return;
        }
        let lo = n * space.chunk;
        let hi = ((n + 1) * space.chunk).min(space.total());
        if lo >= hi {
            println!("{}", json!({"error": "no such unit", "units": space.units()}));
            return;
        }
        let (alpha, first, _) = space.get(lo);
        let (alpha_last, last, _) = space.get(hi - 1);
        println!(
            "{}",
            json!({"strings": format!("shortlex strings {lo}..{hi} of the concatenated enumeration (sigma1, fragments, char-alphabet)"),
                   "first": {"alphabet": alpha, "s": first}, "last": {"alphabet": alpha_last, "s": last},
                   "configs": "every byte tokenizer config (sigma1, fragments) and every char tokenizer config x ignore_special_tokens"})
        );
        return;
    }
    let bcfgs = byte_cfgs();
    let ccfgs = char_cfgs();
    run.bounds.insert("alphabet_sigma1".into(), json!(SIGMA1));
    run.bounds.insert("alphabet_fragments".into(), json!(FRAGMENT_SETS));
    run.bounds.insert("alphabet_char_round_trip".into(), json!(SIGMA3));
    run.bounds.insert("max_symbols".into(), json!({"sigma1": l1, "fragments": l2, "char_round_trip": l3}));
    run.bounds.insert("strings".into(), json!({"sigma1": space.n1, "fragments": space.n2, "char_round_trip": space.n3}));
    run.bounds.insert("special_token_sets".into(), json!(SPECIAL_SETS));
    run.bounds.insert(
        "byte_configs".into(),
        json!({"count": bcfgs.len(), "grid": "use_graphemes {f,t} x groups {bytes,code_points} x pad_to_multiple_of {None,128} x prefix/suffix {[]/[], [bos]/[eos], [bos,bos]/[eos], []/[eos,pad]}", "ignore_special_tokens": [false, true]}),
    );
    run.bounds.insert(
        "char_configs".into(),
        json!({"count": ccfgs.len(), "grid": "use_graphemes {f,t} x prefix/suffix {[]/[], [bos]/[eos], [bos,bos]/[eos], []/[eos,pad]}, unk_token <unk>", "ignore_special_tokens": [false, true]}),
    );
    run.bounds.insert("units".into(), json!(space.units()));
    run.extra.insert(
        "rule".into(),
        json!("every string over each alphabet up to the length bound, in shortlex order, x every tokenizer configuration x ignore_special_tokens; byte tokenizers on sigma1 and fragments, char tokenizers on all three alphabets; a case is non-trivial when the string contains a multi-byte character or '<' / '>' (a special-token spelling or a fragment of one); a second pass uses a special-token set whose spellings contain regular-expression metacharacters, on its own fragment alphabet"),
    );
    run.assumptions.push("the special-token set {<unk>,<bos>,<eos>,<pad>} (plus <extra_token_N> under pad_to_multiple_of, which no enumerated string contains) is prefix-free and overlap-free, so the parse into special tokens and text is unique and independent of the order of the regex alternation".into());
    run.assumptions.push("a special token's id is the id at which get_vocab lists its spelling (agreeing with token_to_id); the character tokenizer's alphabet is the set of single-code-point non-special vocabulary entries".into());

    let (mut parsed_specials, mut unknowns) = (0u64, 0u64);
    for (v, space, unit0) in [(0usize, &space, 0u64), (1, &space2, space.units()), (2, &space3, space.units() + space2.units()), (3, &space4, space.units() + space2.units() + space3.units())] {
    VARIANT.store(v, std::sync::atomic::Ordering::Relaxed);
    let (bcfgs, ccfgs) = (byte_cfgs(), char_cfgs());
    let bytes: Vec<ByteSubject> = bcfgs.iter().filter_map(|c| build_byte(&mut run, c)).collect();
    let chars: Vec<CharSubject> = ccfgs.iter().filter_map(|c| build_char(&mut run, c)).collect();
    if let Some(c) = chars.first() {
        run.bounds.insert("char_alphabet_size".into(), json!(c.alphabet.len()));
    }
    for unit in 0..space.units() {
        if !run.unit(unit0 + unit) {
            continue;
        }
        if run.out_of_time() {
            break;
        }
        let lo = unit * space.chunk;
        let hi = ((unit + 1) * space.chunk).min(space.total());
        for i in lo..hi {
            let (_, s, with_bytes) = space.get(i);
            if i % 64 == 0 {
                run.tick();
            }
            debug_assert!(!s.contains("<extra_token_"));
            let p = Prepared::new(&s);
            if p.parsed.iter().any(|x| matches!(x, Seg::Special(_))) {
                parsed_specials += 1;
            }
            if !s.is_ascii() {
                unknowns += 1;
            }
            for ign in [false, true] {
                if with_bytes {
                    for sub in &bytes {
                        check_byte(&mut run, sub, &p, ign);
                    }
                }
                for sub in &chars {
                    check_char(&mut run, sub, &p, ign);
                }
            }
            if with_bytes {
                if let Some(sub) = bytes.first() {
                    if let Ok(Ok(t)) = catch(|| sub.tok.tokenize(&s, false)) {
                        run.outcome(&t.token_ids);
                    }
                }
            }
        }
        run.tick();
    }
    }
    // long strings (default special-token set): symbol counts around the powers of two a size
    // threshold would sit at, repeated patterns of mixed byte widths, with special tokens, with CR LF
    {
        VARIANT.store(0, std::sync::atomic::Ordering::Relaxed);
        let (bcfgs, ccfgs) = (byte_cfgs(), char_cfgs());
        let lens = tu_verif::enumerate::threshold_lengths(run.pick(8, 10));
        run.bounds.insert("long_phase".into(), json!(format!("symbol counts {lens:?} x 7 repeated patterns (the last one with the lowest and the highest code point) ; per count also one grapheme cluster of that many code points (combining marks, emoji joined by U+200D), alone and inside text; x every tokenizer config x ignore_special_tokens")));
        let unit_l = space.units() + space2.units() + space3.units() + space4.units();
        let mut subjects: Option<(Vec<ByteSubject>, Vec<CharSubject>)> = None;
        for (k, n) in lens.iter().enumerate() {
            if !run.unit(unit_l + k as u64) {
                continue;
            }
            if subjects.is_none() {
                subjects = Some((bcfgs.iter().filter_map(|c| build_byte(&mut run, c)).collect(), ccfgs.iter().filter_map(|c| build_char(&mut run, c)).collect()));
            }
            let (bytes, chars) = subjects.as_ref().unwrap();
            for pat in [&["a"][..], &["a", "ä", "😀"][..], &["<pad>", "a"][..], &["\r", "\n", "a", "\u{301}"][..], &["a", "Z", "~", " "][..], &["\u{915}", "\u{93f}", "a"][..], &["\u{0}", "a", "\u{10ffff}", "\u{7f}"][..]] {
                let s = tu_verif::enumerate::repeat_symbols(pat, *n);
                let p = Prepared::new(&s);
                for ign in [false, true] {
                    for sub in bytes {
                        check_byte(&mut run, sub, &p, ign);
                    }
                    for sub in chars {
                        check_char(&mut run, sub, &p, ign);
                    }
                }
            }
            // one giant grapheme cluster of n code points (a letter with n - 1 combining marks, an
            // emoji joined n - 1 times), alone and with text before and after it
            let marks = format!("a{}", "\u{301}".repeat(*n - 1));
            let joined = format!("😀{}", "\u{200d}😀".repeat(*n - 1));
            // (and one repeated 2-, 3-, 4-byte character at every alignment relative to a byte offset)
            for s in [marks.clone(), format!("xy{marks}"), format!("xy{marks}za"), joined.clone(), format!("a{joined}a")].into_iter().chain(tu_verif::enumerate::byte_aligned_texts(*n)) {
                let p = Prepared::new(&s);
                for ign in [false, true] {
                    for sub in bytes {
                        check_byte(&mut run, sub, &p, ign);
                    }
                    for sub in chars {
                        check_char(&mut run, sub, &p, ign);
                    }
                }
            }
            run.tick();
        }
    }
    run.count_n("strings-with-a-parsed-special-token", parsed_specials);
    run.count_n("strings-with-a-character-outside-the-char-alphabet", unknowns);
    run.finish();
}
