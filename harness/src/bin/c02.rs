//! C02 — BPE tokenization is lossless for every well-formed merge table.
//! Engine A: all small well-formed merge tables (+ hand-made adversarial + trained ones) x every
//! `max_vocab_size` cut x prefix/suffix configs x all short strings over an alphabet that interacts
//! with the tables (space and driver in bpe_common/mod.rs, DESIGN 5/C02).
//!
//! Oracle (from the statement; special tokens ignored on both sides = `tokenize(s, true)` and
//! `de_tokenize(ids, true)`):
//! * `round-trip`: the decoded text is a prefix of the input and what is missing is only White_Space
//!   at the end of the input (weakest reading of "differs only by the input's trailing whitespace":
//!   dropping a part of the trailing run would be accepted too); consequently exactly the input when
//!   the input does not end in whitespace;
//! * `ids-below-vocab-size`: every emitted id is `< vocab_size()`;
//! * `token-bytes-valid-utf8`: the byte strings of the emitted regular tokens (id < 256: the byte,
//!   id 256+i: table entry i), concatenated, are valid UTF-8.
use tu_verif::guard::catch;
use tu_verif::run::Run;

#[path = "bpe_common/mod.rs"]
mod bpe_common;
use bpe_common::{case_json, Built, Expect, Oracle};
use text_utils::tokenization::Tokenize;

struct Lossless {
    bytes: Vec<u8>,
}

impl Oracle for Lossless {
    fn rule(&self) -> &'static str {
        "units are consecutive chunks of the table list (F1 exhaustive tables by size, F3 hand tables, F4 trainings, F2 exhaustive 4-entry tables); per table the tokenizer without limit/prefix/suffix runs over every string up to the main length bound and every max_vocab_size cut x config runs over every string up to the product bound, all in shortlex order; a case is non-trivial when the reference encoder performs at least one merge on the string"
    }

    fn check(&mut self, run: &mut Run, b: &Built, text: &str, e: &Expect) {
        if e.merges >= 1 {
            run.nontrivial += 1;
        }
        run.sample(|| case_json(b, text, None));
        run.calls += 1;
        let ids = match catch(|| b.tok.tokenize(text, true)) {
            Err(p) => return run.violation("no-panic", "", case_json(b, text, None), format!("tokenize panicked: {p}")),
            Ok(Err(err)) => return run.violation("tokenize-ok", "", case_json(b, text, None), format!("tokenize failed: {err}")),
            Ok(Ok(t)) => t.token_ids,
        };
        let vocab_size = b.tok.vocab_size();
        if let Some(bad) = ids.iter().find(|id| **id as usize >= vocab_size) {
            run.violation("ids-below-vocab-size", "", case_json(b, text, None), format!("ids {ids:?} contain {bad}, vocab_size() = {vocab_size}"));
        }
        let regular = 256 + b.eff.len();
        self.bytes.clear();
        for id in &ids {
            let id = *id as usize;
            if id < 256 {
                self.bytes.push(id as u8);
            } else if id < regular {
                self.bytes.extend_from_slice(&b.eff[id - 256]);
            } // else: special token (prefix / suffix), ignored
        }
        if std::str::from_utf8(&self.bytes).is_err() {
            run.violation("token-bytes-valid-utf8", "", case_json(b, text, None), format!("ids {ids:?} spell the bytes {:?}", self.bytes));
        }
        run.calls += 1;
        match catch(|| b.tok.de_tokenize(&ids, true)) {
            Err(p) => run.violation("no-panic", "", case_json(b, text, None), format!("de_tokenize({ids:?}) panicked: {p}")),
            Ok(Err(err)) => run.violation("decode-ok", "", case_json(b, text, None), format!("de_tokenize({ids:?}) failed: {err}")),
            Ok(Ok(dec)) => {
                run.compared += 1;
                if dec != text.trim_end() {
                    if text.starts_with(dec.as_str()) && text[dec.len()..].chars().all(char::is_whitespace) {
                        run.count("decoded-text-keeps-part-of-the-trailing-whitespace");
                    } else {
                        run.violation("round-trip", "", case_json(b, text, None), format!("ids {ids:?} decode to {dec:?}, expected {:?}", text.trim_end()));
                    }
                }
            }
        }
    }
}

fn main() {
    bpe_common::drive("C02", Lossless { bytes: vec![] });
}
