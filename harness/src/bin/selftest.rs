fn main() {
    match tu_verif::srng::selftest() {
        Ok(()) => println!("srng selftest ok"),
        Err(e) => {
            println!("srng selftest FAILED: {e}");
            std::process::exit(2)
        }
    }
}
