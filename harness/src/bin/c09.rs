//! C09 — abandoning or failing never wedges the loader: bounded lookahead, prompt stop, panics end
//! the process. Engine B (DESIGN 5/C09): the real `Pipe` / `Buffered` threads under the controlled
//! scheduler, consumer program `take k; wait until everybody else is blocked; drop`, explored by
//! explicit-state search over all interleavings and by preemption-bounded stateless DFS, for three
//! upstream lengths (L, 2L, 10^9); the panic clause by one child process per schedule.
use serde_json::{json, Value};
use std::sync::atomic::{AtomicBool, AtomicUsize, Ordering};
use std::sync::Arc;
use text_utils::data::loading::{BufferedIterator, PipelineIterator};
use text_utils::data::Pipeline;
use text_utils::verif::ThreadKind;
use tu_verif::run::Run;
use tu_verif::sched::{self, Config, Exec, Halt};

#[derive(Clone, Copy, Debug, PartialEq, Eq)]
enum Kind {
    Pipe,
    Buffered,
    Composite,
}

#[derive(Clone, Copy, Debug)]
struct Scn {
    kind: Kind,
    w: usize,
    b: usize,
    k: usize,
    /// the consumer waits until everybody else is blocked before it drops the iterator; otherwise
    /// it drops right after the k-th item, with the background threads in arbitrary states
    idle: bool,
    /// the upstream iterator reports its exact remaining length as size hint (otherwise `(0, None)`);
    /// such scenarios are run for the finite upstream lengths only
    exact: bool,
    /// the processing function contains a scheduling point of its own ("the item is being
    /// processed"): other threads and the consumer's drop can fall between a worker's taking an item
    /// and its next operation on the shared primitives
    work: bool,
}

impl Scn {
    fn l(&self) -> usize {
        4 * self.w + 2 * self.b + 8
    }
    fn json(&self) -> Value {
        json!({"kind": format!("{:?}", self.kind), "workers": self.w, "buffer_size": self.b, "consume_before_drop": self.k, "idle_before_drop": self.idle, "upstream_exact_size_hint": self.exact, "processing_has_a_scheduling_point": self.work})
    }
    fn from_json(v: &Value) -> Scn {
        let kind = match v["kind"].as_str().unwrap() {
            "Pipe" => Kind::Pipe,
            "Buffered" => Kind::Buffered,
            _ => Kind::Composite,
        };
        Scn { kind, w: v["workers"].as_u64().unwrap() as usize, b: v["buffer_size"].as_u64().unwrap() as usize, k: v["consume_before_drop"].as_u64().unwrap() as usize, idle: v["idle_before_drop"].as_bool().unwrap_or(true), exact: v["upstream_exact_size_hint"].as_bool().unwrap_or(false), work: v["processing_has_a_scheduling_point"].as_bool().unwrap_or(false) }
    }
    fn threads(&self) -> Vec<(ThreadKind, usize)> {
        let mut t = vec![];
        if self.kind != Kind::Buffered {
            t.extend((0..self.w).map(|i| (ThreadKind::PipeWorker, i)));
        }
        if self.kind != Kind::Pipe {
            t.push((ThreadKind::BufferProducer, 0));
        }
        t
    }
}

struct Up {
    n: usize,
    i: usize,
    pulled: Arc<AtomicUsize>,
    exact: bool,
}

impl Iterator for Up {
    type Item = usize;
    fn next(&mut self) -> Option<usize> {
        if self.i < self.n {
            self.i += 1;
            self.pulled.fetch_add(1, Ordering::SeqCst);
            Some(self.i - 1)
        } else {
            None
        }
    }
    fn size_hint(&self) -> (usize, Option<usize>) {
        if self.exact {
            (self.n - self.i, Some(self.n - self.i))
        } else {
            (0, None)
        }
    }
}

#[derive(Default)]
struct Obs {
    pulled: Arc<AtomicUsize>,
    consumed: AtomicUsize,
    dropped: AtomicBool,
    max_look: AtomicUsize,
    idle_look: AtomicUsize,
    pulled_at_drop: AtomicUsize,
}

#[derive(Debug, Clone)]
struct Outcome {
    max_look: usize,
    idle_look: usize,
    pulled: usize,
    pulled_after_drop: usize,
    consumed: usize,
}

fn build(scn: Scn, n: usize, pulled: Arc<AtomicUsize>, panic_at: Option<usize>) -> Box<dyn Iterator<Item = usize> + Send> {
    let up = Up { n, i: 0, pulled, exact: scn.exact };
    let f: Pipeline<usize, usize> = Arc::new(move |x: usize| {
        if scn.work {
            // an always-enabled point that changes nothing in the mirror (a lock nobody ever holds)
            text_utils::verif::point(text_utils::verif::Event::Lock { obj: text_utils::verif::Obj::CountLock });
        }
        if Some(x) == panic_at {
            panic!("processing function fails on item {x}");
        }
        10 * x + 1
    });
    match scn.kind {
        Kind::Pipe => Box::new(up.pipe(f, scn.w as u8)),
        Kind::Buffered => Box::new(up.buffered(scn.b)),
        Kind::Composite => Box::new(up.pipe(f, scn.w as u8).buffered(scn.b)),
    }
}

fn exec(scn: Scn, n: usize, prefix: &[usize]) -> (Exec<()>, Outcome) {
    let obs = Arc::new(Obs::default());
    let o1 = obs.clone();
    let o2 = obs.clone();
    let cfg = Config {
        threads: scn.threads(),
        consumer_controlled: true,
        horizon: 60 * (scn.w + scn.b + scn.k + 4),
        prefix: prefix.to_vec(),
        state_fn: Some(Box::new(move || vec![o1.pulled.load(Ordering::SeqCst) as u64, o1.consumed.load(Ordering::SeqCst) as u64, o1.dropped.load(Ordering::SeqCst) as u64])),
        monitor: Some(Box::new(move |_m, _t| {
            let look = o2.pulled.load(Ordering::SeqCst).saturating_sub(o2.consumed.load(Ordering::SeqCst));
            o2.max_look.fetch_max(look, Ordering::SeqCst);
        })),
        step_log: None,
        free_receivers: vec![],
    };
    let o3 = obs.clone();
    let x = sched::run(cfg, move |ctl| {
        let mut it = build(scn, n, o3.pulled.clone(), None);
        tu_verif::guard::quiet_panics();
        for _ in 0..scn.k {
            match it.next() {
                Some(_) => {
                    o3.consumed.fetch_add(1, Ordering::SeqCst);
                }
                None => break,
            }
        }
        if scn.idle {
            // the consumer goes idle: everybody else runs until blocked
            ctl.await_quiescence();
        } else {
            ctl.harness_point(1);
        }
        let idle = o3.pulled.load(Ordering::SeqCst) - o3.consumed.load(Ordering::SeqCst);
        o3.idle_look.store(idle, Ordering::SeqCst);
        o3.pulled_at_drop.store(o3.pulled.load(Ordering::SeqCst), Ordering::SeqCst);
        o3.dropped.store(true, Ordering::SeqCst);
        drop(it);
    });
    let pulled = obs.pulled.load(Ordering::SeqCst);
    let out = Outcome {
        max_look: obs.max_look.load(Ordering::SeqCst).max(pulled.saturating_sub(obs.consumed.load(Ordering::SeqCst))),
        idle_look: obs.idle_look.load(Ordering::SeqCst),
        pulled,
        pulled_after_drop: if obs.dropped.load(Ordering::SeqCst) { pulled - obs.pulled_at_drop.load(Ordering::SeqCst) } else { 0 },
        consumed: obs.consumed.load(Ordering::SeqCst),
    };
    (x, out)
}

/// everything the exploration of one (scenario, upstream length) produced
#[derive(Default)]
struct Explored {
    max_look: usize,
    witness: Vec<usize>,
    idle_set: std::collections::BTreeSet<usize>,
    after_drop_max: usize,
    stats: sched::Stats,
    failed: bool,
}

fn explore(run: &mut Run, scn: Scn, n: usize, bound: Option<usize>) -> Explored {
    let mut e = Explored::default();
    let ep: *mut Explored = &mut e;
    let runp: *mut Run = run;
    let mut last: Option<Outcome> = None;
    let lp: *mut Option<Outcome> = &mut last;
    let ex = |prefix: &[usize]| {
        let (x, out) = exec(scn, n, prefix);
        unsafe {
            *lp = Some(out);
            (*runp).tick();
        }
        x
    };
    let ck = |x: &Exec<()>, _p: &[usize]| -> bool {
        let run = unsafe { &mut *runp };
        let e = unsafe { &mut *ep };
        let out = unsafe { (*lp).clone().unwrap() };
        run.evaluations += 1;
        run.calls += x.steps.len() as u64;
        run.compared += 1;
        if x.preemptions() > 0 || out.idle_look > 0 || out.pulled_after_drop > 0 {
            run.nontrivial += 1;
        }
        let case = || json!({"scenario": scn.json(), "upstream_items": n, "choices": x.choices(), "schedule": x.schedule(), "mode": if bound.is_some() { "bounded" } else { "states" }});
        run.sample(|| json!({"scenario": scn.json(), "upstream_items": n, "schedule": x.schedule(), "max_lookahead": out.max_look, "idle_lookahead": out.idle_look, "pulled_after_drop": out.pulled_after_drop}));
        run.outcome(&(scn.w, scn.b, scn.k, n, out.max_look, out.idle_look, out.pulled_after_drop));
        match &x.halt {
            Some(Halt::Divergence(d)) => {
                run.violation("machinery-replay-divergence", "machinery", case(), d.clone());
                e.failed = true;
                return false;
            }
            Some(Halt::Timeout(d)) => {
                run.violation("stops-after-drop", "", case(), format!("a thread blocked outside the modelled operations: {d}"));
                e.failed = true;
                return false;
            }
            Some(Halt::Stuck { blocked, spinning }) => {
                run.violation("stops-after-drop", "", case(), format!("{}: background threads never exit (pulled {} items, {} after the drop); blocked at {blocked:?}", if *spinning { "livelock" } else { "deadlock" }, out.pulled, out.pulled_after_drop));
                e.failed = true;
                return false;
            }
            Some(Halt::Horizon { steps, parked }) => {
                run.violation("stops-after-drop", "", case(), format!("background threads still running after {steps} steps: {} items pulled, {} of them after the consumer dropped the iterator; threads at {parked:?}", out.pulled, out.pulled_after_drop));
                e.failed = true;
                return false;
            }
            None => {}
        }
        if let Some(p) = &x.body_panic {
            run.violation("no-panic", "", case(), format!("consumer panicked: {p}"));
            e.failed = true;
            return false;
        }
        if out.max_look > e.max_look || e.witness.is_empty() {
            e.max_look = out.max_look;
            e.witness = x.choices();
        }
        e.idle_set.insert(out.idle_look);
        e.after_drop_max = e.after_drop_max.max(out.pulled_after_drop);
        true
    };
    let deadline = run.deadline();
    e.stats = match bound {
        None => sched::explore_states(deadline, vec![vec![]], 2_000_000, ex, ck),
        Some(b) => sched::explore_bounded(b, deadline, vec![vec![]], ex, ck),
    };
    e
}

fn lookahead_verdict(run: &mut Run, scn: Scn, mode: &str, results: &[(usize, usize, Vec<usize>)]) {
    // results: (upstream length, max lookahead, witness choices)
    let l = scn.l();
    let ms: Vec<usize> = results.iter().map(|r| r.1).collect();
    let same = ms.windows(2).all(|w| w[0] == w[1]);
    let small = ms.iter().all(|m| *m < l);
    if !(same && small) {
        let case = json!({"scenario": scn.json(), "mode": mode, "witnesses": results.iter().map(|(n, m, c)| json!({"upstream_items": n, "max_lookahead": m, "choices": c})).collect::<Vec<_>>()});
        run.violation(
            "bounded-lookahead",
            "",
            case,
            format!("the maximal number of items pulled ahead of the consumer over all explored states is {ms:?} for upstream lengths {:?}: it must be one constant below {l} that does not depend on the input length", results.iter().map(|r| r.0).collect::<Vec<_>>()),
        );
    }
}

struct Unit {
    scn: Scn,
    bound: Option<usize>,
}

fn units(run: &Run) -> Vec<Unit> {
    let q = run.quick();
    let mut u = vec![];
    let mut add = |kind: Kind, w: usize, b: usize, k: usize, idle: bool, bound: Option<usize>| u.push(Unit { scn: Scn { kind, w, b, k, idle, exact: false, work: false }, bound });
    let kmax = if q { 2 } else { 3 };
    // explicit-state search, consumer idles before the drop
    for k in 0..=kmax {
        for w in 1..=3usize {
            if q && w == 3 && k > 0 {
                continue;
            }
            add(Kind::Pipe, w, 0, k, true, None);
        }
        for b in 1..=3usize {
            add(Kind::Buffered, 0, b, k, true, None);
        }
        // composite Pipe -> Buffered as TrainLoader builds it
        if !q || k <= 1 {
            add(Kind::Composite, 2, 1, k, true, None);
        }
        if !q {
            add(Kind::Composite, 2, 2, k, true, None);
            add(Kind::Composite, 1, 1, k, true, None);
        }
    }
    // explicit-state search, the consumer drops at an arbitrary moment after the k-th item
    for k in 0..=(if q { 1 } else { 3 }) {
        add(Kind::Pipe, 2, 0, k, false, None);
        add(Kind::Buffered, 0, 2, k, false, None);
        if !q {
            add(Kind::Pipe, 3, 0, k, false, None);
            add(Kind::Pipe, 1, 0, k, false, None);
            add(Kind::Buffered, 0, 1, k, false, None);
            add(Kind::Buffered, 0, 3, k, false, None);
        }
        if !q || k == 0 {
            add(Kind::Composite, 2, 1, k, false, None);
        }
    }
    // stateless cross-check without state merging
    if q {
        add(Kind::Pipe, 2, 0, 1, true, Some(2));
        add(Kind::Buffered, 0, 2, 1, true, Some(2));
        add(Kind::Composite, 2, 1, 0, true, Some(1));
    } else {
        for k in 0..=2 {
            add(Kind::Pipe, 2, 0, k, true, Some(3));
            add(Kind::Pipe, 2, 0, k, false, Some(3));
            add(Kind::Buffered, 0, 2, k, true, Some(3));
            if k <= 1 {
                add(Kind::Composite, 2, 1, k, true, Some(if k == 0 { 2 } else { 1 }));
            }
        }
    }
    // processing takes time: a scheduling point inside the processing function (the consumer drops
    // the iterator at an arbitrary moment)
    for k in 0..=(if q { 0 } else { 1 }) {
        u.push(Unit { scn: Scn { kind: Kind::Pipe, w: 3, b: 0, k, idle: false, exact: false, work: true }, bound: None });
        if !q {
            u.push(Unit { scn: Scn { kind: Kind::Pipe, w: 2, b: 0, k, idle: false, exact: false, work: true }, bound: None });
        }
    }
    // upstreams that announce their exact length (the lookahead must still not depend on it)
    for k in 0..=1usize {
        u.push(Unit { scn: Scn { kind: Kind::Buffered, w: 0, b: 1, k, idle: true, exact: true, work: false }, bound: None });
        u.push(Unit { scn: Scn { kind: Kind::Pipe, w: 2, b: 0, k, idle: true, exact: true, work: false }, bound: None });
        if !q || k == 0 {
            u.push(Unit { scn: Scn { kind: Kind::Buffered, w: 0, b: 2, k, idle: true, exact: true, work: false }, bound: None });
            u.push(Unit { scn: Scn { kind: Kind::Composite, w: 2, b: 1, k, idle: true, exact: true, work: false }, bound: None });
        }
    }
    u
}

// ------------------------------------------------------------------------------------------------
// panic clause: one child process per schedule
// ------------------------------------------------------------------------------------------------

fn child_main(spec: &Value) -> ! {
    // no quiet_panics() after the pipe is built: the subject's own panic hook must decide
    let scn = Scn::from_json(&spec["scenario"]);
    let n = spec["items"].as_u64().unwrap() as usize;
    let panic_at = spec["panic_at"].as_u64().unwrap() as usize;
    let prefix: Vec<usize> = spec["choices"].as_array().unwrap().iter().map(|v| v.as_u64().unwrap() as usize).collect();
    let log = std::path::PathBuf::from(spec["log"].as_str().unwrap());
    run_history(spec["history"].as_u64().unwrap_or(0) as usize, &log);
    let cfg = Config { threads: scn.threads(), consumer_controlled: true, horizon: 400, prefix, state_fn: None, monitor: None, step_log: Some(log), free_receivers: vec![] };
    let x = sched::run(cfg, move |_ctl| {
        let it = build(scn, n, Arc::new(AtomicUsize::new(0)), Some(panic_at));
        let mut got = 0usize;
        for _ in it {
            got += 1;
        }
        got
    });
    // reached only if the process was not terminated by the subject's panic hook
    match x.halt {
        None => std::process::exit(0),
        Some(Halt::Divergence(_)) => std::process::exit(4),
        Some(_) => std::process::exit(3),
    }
}

/// What the process did before the panicking pipe is built (the panic hook is process-global state):
/// 0 nothing; 1 an earlier 2-worker pipe iterated to its end; 2 that and then `train_bpe` (which
/// installs a hook of its own); 3 that and then the caller replaces the panic hook. Runs without a
/// controller (free-running, not part of the explored schedule).
const HISTORIES: [&str; 4] = ["none", "earlier pipe", "earlier pipe, then train_bpe", "earlier pipe, then the caller sets a panic hook"];

fn run_history(h: usize, log: &std::path::Path) {
    if h >= 1 {
        let it = build(Scn { kind: Kind::Pipe, w: 2, b: 0, k: 0, idle: true, exact: false, work: false }, 2, Arc::new(AtomicUsize::new(0)), None);
        if it.count() != 2 {
            std::process::exit(5);
        }
    }
    if h == 2 {
        let corpus = log.with_extension("corpus");
        let out = log.with_extension("merges");
        // exit status 5 = the history itself failed (machinery), never a verdict
        if std::fs::write(&corpus, "ab ab\n").is_err() || text_utils::tokenization::train_bpe(&[&corpus], 320, 63, &out, None, None, 1, false).is_err() {
            std::process::exit(5);
        }
        let _ = std::fs::remove_file(&corpus);
        let _ = std::fs::remove_file(&out);
    }
    if h == 3 {
        std::panic::set_hook(Box::new(|_| {}));
    }
}

#[allow(clippy::too_many_arguments)]
fn panic_clause(run: &mut Run, scn: Scn, n: usize, panic_at: usize, history: usize, bound: usize, scratch: &tu_verif::refs::Scratch) {
    let exe = std::env::current_exe().expect("own path");
    let mut stack: Vec<Vec<usize>> = vec![vec![]];
    let mut children = 0u64;
    while let Some(prefix) = stack.pop() {
        let log = scratch.path("steps.log");
        let _ = std::fs::remove_file(&log);
        let spec = json!({"scenario": scn.json(), "items": n, "panic_at": panic_at, "history": history, "choices": prefix, "log": log.to_str().unwrap()});
        let mut child = std::process::Command::new(&exe).arg("--child").arg(spec.to_string()).stdout(std::process::Stdio::null()).stderr(std::process::Stdio::null()).spawn().expect("cannot start child");
        let t0 = std::time::Instant::now();
        let status = loop {
            match child.try_wait().expect("wait") {
                Some(s) => break Some(s),
                None if t0.elapsed().as_secs() >= 10 => {
                    let _ = child.kill();
                    let _ = child.wait();
                    break None;
                }
                None => std::thread::sleep(std::time::Duration::from_millis(2)),
            }
        };
        run.tick();
        children += 1;
        run.evaluations += 1;
        run.compared += 1;
        let steps: Vec<(usize, usize, bool)> = std::fs::read_to_string(&log)
            .unwrap_or_default()
            .lines()
            .filter_map(|l| {
                let f: Vec<usize> = l.split(' ').filter_map(|x| x.parse().ok()).collect();
                if f.len() == 4 {
                    Some((f[0], f[1], f[2] == 1))
                } else {
                    None
                }
            })
            .collect();
        run.calls += steps.len() as u64;
        if steps.iter().any(|s| s.2 && s.1 != 0) {
            run.nontrivial += 1;
        }
        let choices: Vec<usize> = steps.iter().map(|s| s.1).collect();
        let case = json!({"clause": "panic", "scenario": scn.json(), "items": n, "panic_at": panic_at, "history": history, "before": HISTORIES[history], "choices": choices});
        run.count(&format!("panic-clause children after history: {}", HISTORIES[history]));
        let code = status.and_then(|s| s.code());
        run.count(&format!("panic-clause child exit {:?}", code));
        match (status, code) {
            (None, _) => run.violation("panic-terminates-process", "", case, "the process was still alive 10 s after a worker's processing function panicked".into()),
            (_, Some(3)) => run.violation("panic-terminates-process", "", case, "after a worker's processing function panicked the process did not terminate: the consumer is blocked forever (no thread can make progress)".into()),
            (_, Some(4)) => run.violation("machinery-replay-divergence", "machinery", case, "child diverged from the schedule prefix".into()),
            (_, Some(5)) => run.violation("machinery-history-failed", "machinery", case, "the operations before the panicking pipe failed in the child".into()),
            _ if steps.is_empty() => run.violation("machinery-no-step-log", "machinery", case, format!("child ended with {code:?} without a single scheduling step")),
            _ => {} // terminated by itself (any status) or finished normally: not wedged
        }
        let mut pre = 0usize;
        let mut kids = vec![];
        for (i, s) in steps.iter().enumerate() {
            if i >= prefix.len() {
                let cost = pre + usize::from(s.2);
                if cost <= bound {
                    for alt in 1..s.0 {
                        let mut p = choices[..i].to_vec();
                        p.push(alt);
                        kids.push(p);
                    }
                }
            }
            if s.2 && s.1 != 0 {
                pre += 1;
            }
        }
        kids.reverse();
        stack.extend(kids);
        if run.num_violations() >= 4 {
            break;
        }
    }
    run.count_n("panic-clause children", children);
}

fn replay(run: &mut Run, case: &Value) {
    if case["clause"] == "panic" {
        let scratch = tu_verif::refs::Scratch::new("c09r");
        // re-run exactly the recorded schedule in a child (bound 0 below its end: no alternatives)
        let scn = Scn::from_json(&case["scenario"]);
        let exe = std::env::current_exe().unwrap();
        let log = scratch.path("steps.log");
        let spec = json!({"scenario": scn.json(), "items": case["items"], "panic_at": case["panic_at"], "history": case["history"].as_u64().unwrap_or(0), "choices": case["choices"], "log": log.to_str().unwrap()});
        let out = std::process::Command::new(&exe).arg("--child").arg(spec.to_string()).output();
        let code = out.ok().and_then(|o| o.status.code());
        if code == Some(3) || code.is_none() {
            run.violation("panic-terminates-process", "", case.clone(), format!("child status {code:?}"));
        }
        return;
    }
    let scn = Scn::from_json(&case["scenario"]);
    if let Some(ws) = case["witnesses"].as_array() {
        let mut res = vec![];
        for w in ws {
            let n = w["upstream_items"].as_u64().unwrap() as usize;
            let choices: Vec<usize> = w["choices"].as_array().unwrap().iter().map(|v| v.as_u64().unwrap() as usize).collect();
            let (x, out) = exec(scn, n, &choices);
            if x.choices() != choices {
                run.violation("machinery-replay-divergence", "machinery", case.clone(), format!("replayed {:?}", x.choices()));
            }
            res.push((n, out.max_look, choices));
        }
        lookahead_verdict(run, scn, "replay", &res);
        return;
    }
    let n = case["upstream_items"].as_u64().unwrap() as usize;
    let choices: Vec<usize> = case["choices"].as_array().unwrap().iter().map(|v| v.as_u64().unwrap() as usize).collect();
    let (x, out) = exec(scn, n, &choices);
    if x.halt.is_some() {
        run.violation("stops-after-drop", "", case.clone(), format!("{:?}; pulled {} ({} after drop)", x.halt, out.pulled, out.pulled_after_drop));
    }
}

fn main() {
    let args: Vec<String> = std::env::args().collect();
    if args.len() >= 3 && args[1] == "--child" {
        let spec: Value = serde_json::from_str(&args[2]).expect("child spec");
        child_main(&spec);
    }
    let mut run = Run::from_env("C09");
    if let Some(case) = run.replay_case() {
        replay(&mut run, &case);
        run.finish();
    }
    let us = units(&run);
    // panic clause units come after the scenario units
    // (scenario, upstream items, panicking item, history, preemption bound)
    let panic_units: Vec<(Scn, usize, usize, usize, usize)> = {
        let mut v = vec![];
        for w in 1..=2usize {
            for p in 0..=2usize {
                v.push((Scn { kind: Kind::Pipe, w, b: 0, k: 0, idle: true, exact: false, work: false }, 3usize, p, 0usize, 1usize));
            }
        }
        // from non-initial process states (the panic hook is global): quick the default schedule and
        // its one-preemption neighbours for the middle item, thorough for every item
        for h in 1..HISTORIES.len() {
            for p in 0..=2usize {
                if p == 1 || !run.quick() {
                    v.push((Scn { kind: Kind::Pipe, w: 2, b: 0, k: 0, idle: true, exact: false, work: false }, 3usize, p, h, 1usize));
                }
            }
        }
        // processing takes time: the panic comes after a scheduling point inside the processing
        // function (other workers can reach the end of the input first)
        for p in if run.quick() { 2..=2usize } else { 0..=2usize } {
            v.push((Scn { kind: Kind::Pipe, w: 2, b: 0, k: 0, idle: true, exact: false, work: true }, 3usize, p, 0usize, 1usize));
        }
        // three workers, four items, the third one panics: one worker can hold the last item and wait
        // for its turn while another has already seen the end of the input
        v.push((Scn { kind: Kind::Pipe, w: 3, b: 0, k: 0, idle: true, exact: false, work: true }, 4usize, 2usize, 0usize, 1usize));
        if !run.quick() {
            for p in 0..=2usize {
                v.push((Scn { kind: Kind::Pipe, w: 3, b: 0, k: 0, idle: true, exact: false, work: false }, 3usize, p, 0, 1));
                v.push((Scn { kind: Kind::Composite, w: 2, b: 1, k: 0, idle: true, exact: false, work: false }, 3usize, p, 0, 1));
            }
            for h in 1..HISTORIES.len() {
                v.push((Scn { kind: Kind::Composite, w: 2, b: 1, k: 0, idle: true, exact: false, work: false }, 3usize, 1, h, 1));
            }
        }
        v
    };
    if let Some(n) = run.describe_unit() {
        let n = n as usize;
        if n < us.len() {
            println!("{}", json!({"scenario": us[n].scn.json(), "bound": us[n].bound}));
        } else {
            let (s, items, p, h, b) = panic_units[n - us.len()];
            println!("{}", json!({"panic_clause": s.json(), "items": items, "panic_at": p, "before": HISTORIES[h], "preemption_bound": b}));
        }
        return;
    }
    run.extra.insert(
        "rule".into(),
        json!("every interleaving (explicit-state search, no preemption bound) of the real Pipe / Buffered / Pipe->Buffered threads with the consumer program `take k; wait until all others are blocked; drop`, for upstream lengths L, 2L and 10^9, plus stateless DFS with bounded preemptions; an execution is non-trivial if it contains a preemption or the idle lookahead is positive; the panic clause runs one child process per schedule with at most 1 preemption"),
    );
    run.assumptions.push("sequentially consistent exploration; shared operations are those made through the instrumented primitives".into());
    let mut per_unit = vec![];
    for (i, u) in us.iter().enumerate() {
        if !run.unit(i as u64) {
            continue;
        }
        let scn = u.scn;
        let l = scn.l();
        let mut results = vec![];
        let mut failed = false;
        let mut info = vec![];
        // (quick: the scenarios with a scheduling point inside the processing function run for the shortest
        // upstream only -- their subject is what happens around the drop, the lookahead verdict comes from
        // the other scenarios)
        let quick = run.quick();
        for n in [l, 2 * l, 1_000_000_000usize].into_iter().filter(|n| (!scn.exact || *n < 1_000_000_000) && (!(quick && scn.work) || *n == l)) {
            let e = explore(&mut run, scn, n, u.bound);
            run.count_n("states", e.stats.states);
            run.count_n("transitions", e.stats.transitions);
            run.count_n(if u.bound.is_some() { "bounded:executions" } else { "states:executions" }, e.stats.executions);
            info.push(json!({"upstream_items": n, "executions": e.stats.executions, "states": e.stats.states, "transitions": e.stats.transitions, "max_lookahead": e.max_look,
                "idle_lookaheads": e.idle_set, "max_pulled_after_drop": e.after_drop_max, "completed": !e.stats.stopped_early}));
            if e.stats.out_of_time {
                run.capped = Some(format!("time budget reached in {:?} upstream {n}", scn));
                failed = true; // no lookahead verdict from an incomplete exploration
                break;
            }
            if e.failed {
                failed = true;
                break;
            }
            results.push((n, e.max_look, e.witness.clone()));
        }
        if !failed {
            lookahead_verdict(&mut run, scn, if u.bound.is_some() { "bounded" } else { "states" }, &results);
        }
        per_unit.push(json!({"scenario": scn.json(), "bound": u.bound, "L": l, "per_upstream_length": info}));
    }
    let scratch = tu_verif::refs::Scratch::new("c09");
    for (j, (scn, items, p, h, b)) in panic_units.iter().enumerate() {
        if !run.unit((us.len() + j) as u64) {
            continue;
        }
        panic_clause(&mut run, *scn, *items, *p, *h, *b, &scratch);
    }
    drop(scratch);
    run.extra.insert("per_config".into(), json!(per_unit));
    run.finish();
}
