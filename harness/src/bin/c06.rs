//! C06 — batching partitions the item stream and respects the batch limit.
//! Engine A: every sequence of item sizes over a small alphabet (zero-size, oversized and all-equal
//! items included) x every batching configuration x seeds, run on the real `Batched` iterator and
//! judged by an oracle written from the statement; the plain mode is compared with a reference
//! greedy chunker (DESIGN 5/C06).
use serde_json::{json, Value};
use text_utils::data::loading::{BatchLimitType, BatchedIterator, ItemSize};
use tu_verif::enumerate::sequences;
use tu_verif::guard::catch;
use tu_verif::run::Run;

const SIZES: [usize; 5] = [0, 1, 2, 3, 5];
/// small values and the extremes (the 'no limit' idiom usize::MAX, the largest power of two, and a
/// value whose product with a small element size no longer fits an allocation request)
const PREFETCH: [usize; 5] = [0, 1, 2, 3, usize::MAX];
const LIMITS: [usize; 9] = [0, 1, 2, 3, 4, 6, 1 << 61, 1 << 63, usize::MAX];

/// an item with a unique id (its position in the input) and a size
#[derive(Clone, Copy, PartialEq, Eq, Hash, Debug)]
struct It {
    id: usize,
    size: usize,
}

impl ItemSize for It {
    fn size(&self) -> usize {
        self.size
    }
}

#[derive(Clone, Copy, Debug)]
struct Cfg {
    sort: bool,
    shuffle: bool,
    prefetch: usize,
    limit: usize,
    padded: bool,
    seed: u64,
    /// what the item iterator reports as its size hint: 0 exact, 1 `(0, None)`, 2 an inexact non-zero
    /// lower bound `(1, Some(n + 2))`
    hint: u8,
}

const HINT_NAMES: [&str; 3] = ["exact", "(0, None)", "(1, Some(n + 2))"];

/// the items with a chosen (legal) size hint
struct Hinted {
    items: std::vec::IntoIter<It>,
    hint: u8,
}

impl Iterator for Hinted {
    type Item = It;
    fn next(&mut self) -> Option<It> {
        self.items.next()
    }
    fn size_hint(&self) -> (usize, Option<usize>) {
        let left = self.items.len();
        match self.hint {
            1 => (0, None),
            2 => (left.min(1), Some(left + 2)),
            _ => (left, Some(left)),
        }
    }
}

type Output = Vec<Vec<It>>;

#[derive(Default)]
struct Stats {
    /// cases per mode (plain, sort, shuffle, sort+shuffle)
    mode: [u64; 4],
    batches: u64,
    multi_item_batches: u64,
    oversized_single_batches: u64,
    /// [n][k]: shuffled (input, configuration) combinations of n items whose seed set gave k distinct outputs
    distinct: Vec<Vec<u64>>,
}

fn case_json(sizes: &[usize], c: &Cfg) -> Value {
    json!({
        "sizes": sizes, "sort": c.sort, "shuffle": c.shuffle, "prefetch_factor": c.prefetch, "limit": c.limit,
        "limit_type": if c.padded { "padded_item_size" } else { "batch_size" }, "seed": c.seed,
        "item_iterator_size_hint": HINT_NAMES[c.hint as usize],
    })
}

fn case_from_json(v: &Value) -> (Vec<usize>, Cfg) {
    let sizes = v["sizes"].as_array().unwrap().iter().map(|x| x.as_u64().unwrap() as usize).collect();
    let c = Cfg {
        sort: v["sort"].as_bool().unwrap(),
        shuffle: v["shuffle"].as_bool().unwrap(),
        prefetch: v["prefetch_factor"].as_u64().unwrap() as usize,
        limit: v["limit"].as_u64().unwrap() as usize,
        padded: v["limit_type"].as_str().unwrap() == "padded_item_size",
        seed: v["seed"].as_u64().unwrap(),
        hint: match v["item_iterator_size_hint"].as_str() {
            Some("(0, None)") => 1,
            Some("(1, Some(n + 2))") => 2,
            _ => 0,
        },
    };
    (sizes, c)
}

fn show(out: &Output) -> String {
    let b: Vec<String> = out.iter().map(|b| format!("[{}]", b.iter().map(|x| format!("#{}:{}", x.id, x.size)).collect::<Vec<_>>().join(" "))).collect();
    format!("batches (#id:size) {}", b.join(" "))
}

/// what the statement calls the limit measure: item count, or count times the largest item size
fn measure(sizes: impl Iterator<Item = usize>, padded: bool) -> usize {
    let (mut n, mut mx) = (0usize, 0usize);
    for s in sizes {
        n += 1;
        mx = mx.max(s);
    }
    if padded {
        n * mx
    } else {
        n
    }
}

/// Reference greedy chunker for the plain mode: a batch is closed exactly when adding the next item
/// would exceed the limit; a batch always holds at least one item. Returns batches of positions.
fn greedy_chunks(sizes: &[usize], limit: usize, padded: bool) -> Vec<Vec<usize>> {
    let mut out: Vec<Vec<usize>> = vec![];
    let mut cur: Vec<usize> = vec![];
    for (i, s) in sizes.iter().enumerate() {
        if !cur.is_empty() && measure(cur.iter().map(|j| sizes[*j]).chain(std::iter::once(*s)), padded) > limit {
            out.push(std::mem::take(&mut cur));
        }
        cur.push(i);
    }
    if !cur.is_empty() {
        out.push(cur);
    }
    out
}

/// Runs the real iterator on the case: at most N+1 calls of `next`. Returns the batches, whether
/// `None` was seen, and the number of calls.
fn drive(sizes: &[usize], c: &Cfg) -> Result<(Output, bool, u64), String> {
    catch(|| {
        let items: Vec<It> = sizes.iter().enumerate().map(|(id, size)| It { id, size: *size }).collect();
        let ty = if c.padded { BatchLimitType::PaddedItemSize } else { BatchLimitType::BatchSize };
        let mut b = Hinted { items: items.into_iter(), hint: c.hint }.batched(c.sort, c.shuffle, c.prefetch, c.limit, ty, Some(c.seed));
        let mut out: Output = Vec::with_capacity(sizes.len());
        let mut ended = false;
        let mut calls = 1u64;
        for _ in 0..sizes.len() + 1 {
            calls += 1;
            match b.next() {
                Some(batch) => out.push(batch),
                None => {
                    ended = true;
                    break;
                }
            }
        }
        (out, ended, calls)
    })
}

fn check(run: &mut Run, st: &mut Stats, sizes: &[usize], c: &Cfg) -> Option<Output> {
    run.evaluations += 1;
    run.sample(|| case_json(sizes, c));
    st.mode[c.sort as usize + 2 * c.shuffle as usize] += 1;
    let n = sizes.len();
    let limit = c.limit.max(1); // "as the constructor defines": a limit of 0 means 1
    let case = || case_json(sizes, c);
    let first = drive(sizes, c);
    let second = drive(sizes, c);
    let (out, ended, calls) = match first {
        Ok(x) => x,
        Err(p) => {
            run.calls += 1;
            run.violation("no-panic", "", case(), format!("batched iteration panicked: {p}"));
            return None;
        }
    };
    run.calls += calls;
    run.compared += 1;
    run.outcome(&out);
    // terminates: no more than N+1 calls of next
    if !ended {
        run.violation("terminates-within-n-plus-1-calls", "", case(), format!("{n} items, but {} calls of next() all returned a batch: {}", n + 1, show(&out)));
    }
    // deterministic function of the seed
    match second {
        Ok((out2, ended2, calls2)) => {
            run.calls += calls2;
            if out2 != out || ended2 != ended {
                run.violation("deterministic-in-seed", "", case(), format!("two runs of the same case differ: {} vs {}", show(&out), show(&out2)));
            }
        }
        Err(p) => run.violation("deterministic-in-seed", "", case(), format!("the first run returned {}, the second panicked: {p}", show(&out))),
    }
    // partition: every id exactly once
    let mut seen = vec![0usize; n];
    let mut foreign = false;
    for x in out.iter().flatten() {
        if x.id < n && sizes[x.id] == x.size {
            seen[x.id] += 1;
        } else {
            foreign = true;
        }
    }
    if foreign || seen.iter().any(|k| *k != 1) {
        let missing: Vec<usize> = (0..n).filter(|i| seen[*i] == 0).collect();
        let dup: Vec<usize> = (0..n).filter(|i| seen[*i] > 1).collect();
        run.violation("partition", "", case(), format!("missing ids {missing:?}, repeated ids {dup:?}, unknown item {foreign}: {}", show(&out)));
    }
    // no empty batch
    if out.iter().any(|b| b.is_empty()) {
        run.violation("no-empty-batch", "", case(), show(&out));
    }
    // every batch with more than one item satisfies the limit
    for b in &out {
        st.batches += 1;
        let m = measure(b.iter().map(|x| x.size), c.padded);
        if b.len() > 1 {
            st.multi_item_batches += 1;
            if m > limit {
                run.violation("limit-respected", "", case(), format!("a batch of {} items measures {m} > limit {limit}: {}", b.len(), show(&out)));
                break;
            }
        } else if m > limit {
            st.oversized_single_batches += 1;
        }
    }
    // plain mode: input order, greedy-maximal batches
    if !c.sort && !c.shuffle {
        let ids: Vec<usize> = out.iter().flatten().map(|x| x.id).collect();
        if ids != (0..n).collect::<Vec<_>>() {
            run.violation("plain-order-preserved", "", case(), format!("concatenation of the batches is {ids:?}: {}", show(&out)));
        } else {
            let expect = greedy_chunks(sizes, limit, c.padded);
            let got: Vec<Vec<usize>> = out.iter().map(|b| b.iter().map(|x| x.id).collect()).collect();
            if got != expect {
                run.violation("plain-greedy-maximal", "", case(), format!("batches {got:?}, the greedy chunker gives {expect:?} (limit {limit}): {}", show(&out)));
            }
        }
    }
    if out.len() >= 2 && out.iter().any(|b| b.len() > 1) {
        run.nontrivial += 1;
    }
    Some(out)
}

fn main() {
    let mut run = Run::from_env("C06");
    let mut st = Stats::default();
    if let Some(c) = run.replay_case() {
        let (sizes, cfg) = case_from_json(&c);
        // a violated determinism clause may show only with some probability: repeat (16 times at most)
        for _ in 0..16 {
            check(&mut run, &mut st, &sizes, &cfg);
            if run.num_violations() > 0 {
                break;
            }
        }
        run.finish();
    }
    let max_len = run.pick(6, 7);
    let nseeds: u64 = run.pick(4, 16);
    let all: Vec<Vec<usize>> = sequences(SIZES.len(), max_len).into_iter().map(|s| s.into_iter().map(|i| SIZES[i]).collect()).collect();
    if let Some(u) = run.describe_unit() {
        println!(
            "{}",
            json!({"sizes": all.get(u as usize % all.len()), "item_iterator_size_hint": if (u as usize) < all.len() { "exact" } else { "(0, None) and (1, Some(n + 2)), reduced grid" }, "configurations": format!("sort x shuffle x prefetch_factor {PREFETCH:?} x limit {LIMITS:?} x {{batch_size, padded_item_size}} x seeds 0..{nseeds} when shuffling (seed 0 otherwise)")})
        );
        return;
    }
    run.bounds.insert("item_sizes".into(), json!(SIZES));
    run.bounds.insert("max_items".into(), json!(max_len));
    run.bounds.insert("size_sequences".into(), json!(all.len()));
    run.bounds.insert("sort".into(), json!([false, true]));
    run.bounds.insert("shuffle".into(), json!([false, true]));
    run.bounds.insert("prefetch_factor".into(), json!(PREFETCH));
    run.bounds.insert("batch_limit".into(), json!(LIMITS));
    run.bounds.insert("item_iterator_size_hint".into(), json!("exact in the full grid; (0, None) and (1, Some(n + 2)) in a reduced grid: 4 modes x prefetch 1 x limits {1, 2, usize::MAX} x both limit types x seed 0"));
    run.bounds.insert("batch_limit_type".into(), json!(["batch_size", "padded_item_size"]));
    run.bounds.insert("seeds".into(), json!(format!("0..{nseeds} when shuffle is on, seed 0 otherwise")));
    run.extra.insert(
        "rule".into(),
        json!("every sequence of item sizes over the size alphabet up to the length bound (shortlex; one sequence = one unit; items carry their position as unique id) x every configuration of the grid x every seed of the seed set, each case run twice on the real Batched iterator with at most N+1 calls of next(); a case is non-trivial when its output has at least two batches and at least one batch with more than one item"),
    );
    run.assumptions.push("seeds outside the enumerated set are not covered; the seed is a plain input, the oracle is an invariant of every outcome, determinism is checked by running every case twice".into());
    st.distinct = vec![vec![0; nseeds as usize + 1]; max_len + 1];
    let mut seen: Vec<Output> = Vec::with_capacity(nseeds as usize);
    for (idx, sizes) in all.iter().enumerate() {
        if !run.unit(idx as u64) {
            continue;
        }
        if run.out_of_time() {
            break;
        }
        for mode in 0..4u32 {
            let (sort, shuffle) = (mode & 1 != 0, mode & 2 != 0);
            for prefetch in PREFETCH {
                for limit in LIMITS {
                    for padded in [false, true] {
                        seen.clear();
                        let mut complete = true;
                        for seed in 0..(if shuffle { nseeds } else { 1 }) {
                            let c = Cfg { sort, shuffle, prefetch, limit, padded, seed, hint: 0 };
                            match check(&mut run, &mut st, sizes, &c) {
                                Some(out) => {
                                    if !seen.contains(&out) {
                                        seen.push(out);
                                    }
                                }
                                None => complete = false,
                            }
                        }
                        if shuffle && complete {
                            st.distinct[sizes.len()][seen.len()] += 1;
                        }
                    }
                }
            }
        }
    }
    // item iterators whose size hint is not exact: the number of items is what the iterator yields
    // (reduced grid: prefetch 1, limits 1, 2 and usize::MAX, seed 0)
    for (idx, sizes) in all.iter().enumerate() {
        if !run.unit((all.len() + idx) as u64) {
            continue;
        }
        for hint in [1u8, 2] {
            for mode in 0..4u32 {
                for limit in [1usize, 2, usize::MAX] {
                    for padded in [false, true] {
                        let c = Cfg { sort: mode & 1 != 0, shuffle: mode & 2 != 0, prefetch: 1, limit, padded, seed: 0, hint };
                        check(&mut run, &mut st, sizes, &c);
                    }
                }
            }
        }
    }
    // long item sequences: lengths around the powers of two a size threshold would sit at (a buffer
    // that is refilled, reallocated or drained in blocks), reduced configuration grid
    {
        let lens = tu_verif::enumerate::threshold_lengths(run.pick(8, 10));
        run.bounds.insert("long_sequences".into(), json!(format!("lengths {lens:?} x size patterns [1], [1,2,3,0,5], [5,0] x 4 modes x prefetch {{1, 3}} x limits {{1, 3, 6, 64, usize::MAX}} x both limit types x seeds 0..2 when shuffling")));
        for (k, n) in lens.iter().enumerate() {
            if !run.unit((2 * all.len() + k) as u64) {
                continue;
            }
            for pat in [&[1usize][..], &[1, 2, 3, 0, 5][..], &[5, 0][..]] {
                let sizes: Vec<usize> = (0..*n).map(|i| pat[i % pat.len()]).collect();
                for mode in 0..4u32 {
                    for prefetch in [1usize, 3] {
                        for limit in [1usize, 3, 6, 64, usize::MAX] {
                            for padded in [false, true] {
                                for seed in 0..(if mode & 2 != 0 { 2 } else { 1 }) {
                                    let c = Cfg { sort: mode & 1 != 0, shuffle: mode & 2 != 0, prefetch, limit, padded, seed, hint: 0 };
                                    check(&mut run, &mut st, &sizes, &c);
                                }
                            }
                        }
                    }
                }
            }
        }
    }
    for (i, name) in ["plain", "sort", "shuffle", "sort+shuffle"].iter().enumerate() {
        run.count_n(&format!("cases mode={name}"), st.mode[i]);
    }
    run.count_n("batches", st.batches);
    run.count_n("batches with more than one item (limit clause applies)", st.multi_item_batches);
    run.count_n("single-item batches exceeding the limit (allowed)", st.oversized_single_batches);
    // how many distinct outputs the seed set produced per shuffled (input, configuration): shows that
    // the seed set is not vacuous
    for (lo, hi) in [(1usize, 1usize), (2, 3), (4, 7), (8, 15), (16, 16)] {
        let v: u64 = st.distinct.iter().map(|row| row.iter().enumerate().filter(|(k, _)| (lo..=hi).contains(k)).map(|(_, v)| *v).sum::<u64>()).sum();
        if v > 0 {
            run.count_n(&format!("shuffled (input, configuration) pairs whose {nseeds} seeds gave {lo}..={hi} distinct outputs"), v);
        }
    }
    run.finish();
}
