//! C05 — the threaded pipeline is observationally a sequential map, under every schedule.
//! Engine B: explicit-state search over all interleavings + preemption-bounded stateless DFS of the
//! real `Pipe` threads (DESIGN 5/C05).
use serde_json::json;
use std::sync::atomic::{AtomicUsize, Ordering};
use std::sync::{Arc, Mutex};
use text_utils::data::loading::PipelineIterator;
use text_utils::data::Pipeline;
use text_utils::verif::{Event, Obj, ThreadKind};
use tu_verif::run::Run;
use tu_verif::sched::{self, Config, Exec, Halt, Parked};

/// the poll budget of the unit being explored (recorded in replay cases)
static SPIN: AtomicUsize = AtomicUsize::new(0);
/// the base schedule policy of the unit being explored (recorded in replay cases)
static POLICY: AtomicUsize = AtomicUsize::new(0);
/// 1: the processing function contains a scheduling point of its own ("the item is being processed")
static WORK: AtomicUsize = AtomicUsize::new(0);

/// what the upstream iterator of the unit being explored reports as its size hint (0 exact, 1 nothing
/// `(0, None)`, 2 an inexact non-zero lower bound `(1, Some(n + 2))`); recorded in replay cases
static HINT: AtomicUsize = AtomicUsize::new(0);
const HINTS: [&str; 3] = ["exact", "(0, None)", "(1, Some(n + 2))"];

/// 0..n with a chosen (legal) size hint
struct Upstream {
    next: usize,
    n: usize,
    hint: usize,
}

impl Iterator for Upstream {
    type Item = usize;
    fn next(&mut self) -> Option<usize> {
        if self.next < self.n {
            self.next += 1;
            Some(self.next - 1)
        } else {
            None
        }
    }
    fn size_hint(&self) -> (usize, Option<usize>) {
        let left = self.n - self.next;
        match self.hint {
            1 => (0, None),
            2 => (left.min(1), Some(left + 2)),
            _ => (left, Some(left)),
        }
    }
}

struct Shared {
    outputs: Mutex<Vec<usize>>,
    calls: Vec<AtomicUsize>,
}

fn f(x: usize) -> usize {
    10 * x + 1
}

fn exec(w: usize, n: usize, prefix: &[usize]) -> (Exec<Vec<usize>>, Vec<usize>) {
    let shared = Arc::new(Shared { outputs: Mutex::new(vec![]), calls: (0..n).map(|_| AtomicUsize::new(0)).collect() });
    let s1 = shared.clone();
    let cfg = Config {
        threads: (0..w).map(|i| (ThreadKind::PipeWorker, i)).collect(),
        consumer_controlled: true,
        horizon: 96 + 24 * n * w.max(1),
        prefix: prefix.to_vec(),
        state_fn: Some(Box::new(move || {
            let mut v: Vec<u64> = s1.outputs.lock().unwrap().iter().map(|x| *x as u64).collect();
            v.push(u64::MAX);
            v.extend(s1.calls.iter().map(|c| c.load(Ordering::SeqCst) as u64));
            v
        })),
        monitor: None,
        step_log: None,
        free_receivers: vec![],
    };
    let s2 = shared.clone();
    let x = sched::run(cfg, move |_ctl| {
        let s3 = s2.clone();
        let pipeline: Pipeline<usize, usize> = Arc::new(move |x: usize| {
            s3.calls[x].fetch_add(1, Ordering::SeqCst);
            if WORK.load(Ordering::SeqCst) == 1 {
                // an always-enabled point that changes nothing in the mirror (a lock nobody ever holds)
                text_utils::verif::point(Event::Lock { obj: Obj::CountLock });
            }
            f(x)
        });
        let mut pipe = Upstream { next: 0, n, hint: HINT.load(Ordering::SeqCst) }.pipe(pipeline, w as u8);
        // Pipe::new installed a process-exit panic hook; the harness wants panics reported
        tu_verif::guard::quiet_panics();
        let mut out = vec![];
        while let Some(item) = pipe.next() {
            out.push(item);
            s2.outputs.lock().unwrap().push(item);
            if out.len() > n + 2 {
                break;
            }
        }
        drop(pipe);
        out
    });
    let calls = shared.calls.iter().map(|c| c.load(Ordering::SeqCst)).collect();
    (x, calls)
}

fn nontrivial(x: &Exec<Vec<usize>>) -> bool {
    // another thread runs inside the window between a worker's send and its turn advance, or at
    // least two workers hold an item at the same time
    x.steps.iter().any(|s| {
        let window_open = s.parked.iter().any(|p| matches!(p, Some(Parked::Ev(Event::Write { obj: Obj::PipeTurn }))));
        let holders = s
            .parked
            .iter()
            .filter(|p| matches!(p, Some(Parked::Ev(Event::Load { obj: Obj::PipeTurn } | Event::Send { obj: Obj::PipeChan } | Event::Write { obj: Obj::PipeTurn }))))
            .count();
        (window_open && !matches!(s.at, Parked::Ev(Event::Write { obj: Obj::PipeTurn }))) || holders >= 2
    })
}

fn check(run: &mut Run, mode: &str, w: usize, n: usize, bound: Option<usize>, x: &Exec<Vec<usize>>, calls: &[usize]) -> bool {
    run.evaluations += 1;
    run.calls += x.steps.len() as u64;
    run.compared += 1;
    if nontrivial(x) {
        run.nontrivial += 1;
    }
    let expect: Vec<usize> = (0..n).map(f).collect();
    let case = || json!({"mode": mode, "workers": w, "items": n, "bound": bound, "spin_polls": SPIN.load(Ordering::SeqCst), "base_schedule_policy": POLICY.load(Ordering::SeqCst), "processing_has_a_scheduling_point": WORK.load(Ordering::SeqCst) == 1, "upstream_size_hint": HINTS[HINT.load(Ordering::SeqCst)], "choices": x.choices(), "schedule": x.schedule()});
    if x.spun > 0 {
        run.count_n("polls of busy waits let through (long waits)", x.spun);
    }
    run.sample(|| json!({"mode": mode, "workers": w, "items": n, "schedule": x.schedule(), "output": x.result}));
    if let Some(r) = &x.result {
        run.outcome(&(w, n, r));
    }
    let mut ok = true;
    match &x.halt {
        Some(Halt::Divergence(d)) => {
            run.violation("machinery-replay-divergence", "machinery", case(), d.clone());
            return false;
        }
        Some(Halt::Timeout(d)) => {
            run.violation("termination", "", case(), format!("a thread blocked outside the modelled operations: {d}"));
            return false;
        }
        Some(Halt::Stuck { blocked, spinning }) => {
            run.violation("termination", "", case(), format!("{}: no thread can make progress, blocked threads {:?}", if *spinning { "livelock (all remaining threads spin for a turn that never comes)" } else { "deadlock" }, blocked));
            return run.num_violations() < 4;
        }
        Some(Halt::Horizon { steps, parked }) => {
            run.violation("termination", "", case(), format!("no termination within {steps} steps; threads at {parked:?}"));
            return run.num_violations() < 4;
        }
        None => {}
    }
    if let Some(p) = &x.body_panic {
        run.violation("no-panic", "", case(), format!("consumer panicked: {p}"));
        ok = false;
    }
    match &x.result {
        Some(out) if *out == expect => {}
        Some(out) => {
            run.violation("sequential-map", "", case(), format!("expected output {expect:?}, observed {out:?} (anomalies: {:?})", x.anomalies));
            ok = false;
        }
        None => {}
    }
    if calls.iter().any(|c| *c != 1) && x.body_panic.is_none() {
        run.violation("processed-exactly-once", "", case(), format!("per-item call counts of the processing function: {calls:?}"));
        ok = false;
    }
    ok || run.num_violations() < 4
}

struct Unit {
    mode: &'static str,
    w: usize,
    n: usize,
    bound: Option<usize>,
    /// (k, of): this unit explores only the k-th share of the first-level subtrees of a bounded
    /// search that is split over `of` units (share 0 also checks the default execution)
    part: Option<(usize, usize)>,
    /// "long waits": every busy-waiting worker really polls this many times before the scheduler
    /// treats its wait as blocking (an item in front that is slow by so many polls); 0 = blocking at once
    spin: usize,
    /// index into HINTS
    hint: usize,
    /// processing takes time (a scheduling point inside the processing function)
    work: bool,
}

fn units(run: &Run) -> Vec<Unit> {
    let mut u = vec![];
    let quick = run.quick();
    // explicit-state full search (no preemption bound): cheap, so it goes furthest
    for w in 0..=3usize {
        for n in 0..=(if quick { 3 } else { 6 }) {
            u.push(Unit { mode: "states", w, n, bound: None, part: None, spin: 0, hint: 0, work: false });
        }
    }
    if !quick {
        for n in 0..=4 {
            u.push(Unit { mode: "states", w: 4, n, bound: None, part: None, spin: 0, hint: 0, work: false });
        }
        for n in 0..=2 {
            u.push(Unit { mode: "states", w: 5, n, bound: None, part: None, spin: 0, hint: 0, work: false });
        }
    }
    // stateless preemption-bounded cross-check (merges nothing; grows fast with the bound)
    let mut split = |w: usize, n: usize, bound: usize, of: usize| {
        for k in 0..of {
            u.push(Unit { mode: "bounded", w, n, bound: Some(bound), part: if of > 1 { Some((k, of)) } else { None }, spin: 0, hint: 0, work: false });
        }
    };
    if !quick {
        // the large bounded searches, split over several units by first-level subtree
        split(3, 3, 3, 16);
        split(2, 4, 4, 8);
        split(3, 4, 2, 8);
    }
    let mut bounded = |w: usize, n: usize, bound: usize| u.push(Unit { mode: "bounded", w, n, bound: Some(bound), part: None, spin: 0, hint: 0, work: false });
    if quick {
        for n in 1..=3 {
            bounded(1, n, 3);
            bounded(2, n, if n <= 2 { 3 } else { 2 });
        }
        bounded(3, 1, 2);
        bounded(3, 2, 2);
        bounded(3, 3, 1);
    } else {
        for n in 1..=4 {
            bounded(1, n, 4);
            bounded(2, n, 3);
        }
        for n in 1..=3 {
            bounded(2, n, 4);
            bounded(3, n, 2);
        }
        bounded(3, 1, 3);
        bounded(3, 2, 3);
        bounded(4, 2, 1);
    }
    // long inputs: item counts around the powers of two a size threshold would sit at (a batch of
    // tickets per lock, a resized buffer) under the default schedule only (one execution per unit:
    // the schedule space of the short inputs is explored exhaustively above)
    for n in tu_verif::enumerate::threshold_lengths(if quick { 8 } else { 10 }) {
        for w in 1..=3usize {
            u.push(Unit { mode: "default-schedule", w, n, bound: Some(0), part: None, spin: 0, hint: 0, work: false });
        }
    }
    // many workers: thread counts around the powers of two a threshold would sit at (work handed out
    // in blocks that grow with the thread count), with item counts that are not multiples of anything
    for w in tu_verif::enumerate::threshold_lengths(if quick { 5 } else { 7 }) {
        for n in [1usize, 3, 7, w + 1] {
            u.push(Unit { mode: "default-schedule", w, n, bound: Some(0), part: None, spin: 0, hint: 0, work: false });
        }
    }
    // the same worker counts with a consumer that falls behind as far as it can (base schedule 'fair
    // workers, consumer last': the channel is full and a further worker waits at its send whenever the
    // consumer moves), with more items than any buffer sized by the thread count would hold
    // (worker counts around 2^4 and 2^5, thorough also around 2^6 and 2^7)
    for w in tu_verif::enumerate::threshold_lengths(if quick { 5 } else { 7 }) {
        for n in [w + 2, 2 * w + 3, 4 * w + 1] {
            u.push(Unit { mode: "lagging-consumer", w, n, bound: Some(0), part: None, spin: 0, hint: 0, work: false });
        }
    }
    // more workers than a small-count special case would cover, with more items than the channel
    // holds (the channel fills while the consumer is not scheduled): every schedule with at most one
    // preemption
    // (the full schedule space of 9 workers is out of reach -- a one-preemption search of W=9, N=11 was
    // stopped after 173 000 executions --, so the deviations are a named kind of race: decisions taken
    // while two or more threads are parked at a send on the pipe's channel, at most 2 of them, around
    // the base schedule 'fair workers, consumer last' in which every worker holds an item and the
    // channel fills before the consumer moves)
    u.push(Unit { mode: "sender-races", w: 9, n: 11, bound: Some(2), part: None, spin: 0, hint: 0, work: false });
    u.push(Unit { mode: "sender-races", w: 3, n: 5, bound: Some(2), part: None, spin: 0, hint: 0, work: false });
    if !quick {
        u.push(Unit { mode: "sender-races", w: 17, n: 19, bound: Some(2), part: None, spin: 0, hint: 0, work: false });
        // any two threads at an operation of the channel (the ordinary producer / consumer race), one deviation
        u.push(Unit { mode: "channel-races", w: 9, n: 11, bound: Some(1), part: None, spin: 0, hint: 0, work: false });
    }
    // per-item processing delays: a scheduling point inside the processing function, every interleaving
    for w in 1..=3usize {
        for n in 1..=(if quick { 2 } else { 4 }) {
            u.push(Unit { mode: "states", w, n, bound: None, part: None, spin: 0, hint: 0, work: true });
        }
    }
    // upstream iterators whose size hint is not exact (every interleaving again for the small cases):
    // the number of items is what the iterator yields, not what it announces
    for hint in 1..HINTS.len() {
        for w in 1..=2usize {
            for n in 2..=(if quick { 3 } else { 4 }) {
                u.push(Unit { mode: "states", w, n, bound: None, part: None, spin: 0, hint, work: false });
            }
        }
    }
    // long waits: the same bounded search while every turn wait really spins (relative processing
    // speed: the item in front is slower by that many polls of the turn counter)
    let spin = if quick { 1 << 21 } else { 1 << 22 };
    let mut long = |w: usize, n: usize, bound: usize| u.push(Unit { mode: "long-waits", w, n, bound: Some(bound), part: None, spin, hint: 0, work: false });
    if quick {
        long(2, 2, 1);
    } else {
        long(2, 2, 1);
        long(2, 3, 1);
        long(3, 2, 1);
    }
    u
}

fn main() {
    let mut run = Run::from_env("C05");
    if let Some(case) = run.replay_case() {
        let w = case["workers"].as_u64().unwrap() as usize;
        let n = case["items"].as_u64().unwrap() as usize;
        let choices: Vec<usize> = case["choices"].as_array().unwrap().iter().map(|v| v.as_u64().unwrap() as usize).collect();
        sched::set_spin_polls(case["spin_polls"].as_u64().unwrap_or(0) as usize);
        sched::set_base_policy(case["base_schedule_policy"].as_u64().unwrap_or(0) as usize);
        WORK.store(usize::from(case["processing_has_a_scheduling_point"].as_bool().unwrap_or(false)), Ordering::SeqCst);
        HINT.store(HINTS.iter().position(|h| Some(*h) == case["upstream_size_hint"].as_str()).unwrap_or(0), Ordering::SeqCst);
        let (x, calls) = exec(w, n, &choices);
        // replaying a recorded schedule must reproduce it exactly
        if x.choices() != choices {
            run.violation("machinery-replay-divergence", "machinery", case.clone(), format!("replayed choices {:?}", x.choices()));
        }
        check(&mut run, "replay", w, n, None, &x, &calls);
        run.finish();
    }
    let us = units(&run);
    if let Some(n) = run.describe_unit() {
        let u = &us[n as usize];
        println!("{}", json!({"mode": u.mode, "workers": u.w, "items": u.n, "bound": u.bound, "part": u.part, "spin_polls": u.spin, "upstream_size_hint": HINTS[u.hint], "processing_has_a_scheduling_point": u.work}));
        return;
    }
    run.bounds.insert("explicit_state".into(), json!("all interleavings (no preemption bound) for every listed (workers, items)"));
    run.bounds.insert("configs".into(), json!(us.iter().map(|u| json!([u.mode, u.w, u.n, u.bound])).collect::<Vec<_>>()));
    let mut per_unit = vec![];
    for (i, u) in us.iter().enumerate() {
        if !run.unit(i as u64) {
            continue;
        }
        sched::set_spin_polls(u.spin);
        SPIN.store(u.spin, Ordering::SeqCst);
        HINT.store(u.hint, Ordering::SeqCst);
        WORK.store(usize::from(u.work), Ordering::SeqCst);
        // determinism of the machinery itself: the default schedule replayed twice gives identical traces
        let (a, _) = exec(u.w, u.n, &[]);
        let (b, _) = exec(u.w, u.n, &a.choices());
        if a.trace != b.trace {
            run.violation("machinery-nondeterminism", "machinery", json!({"workers": u.w, "items": u.n}), "two runs of the same schedule produced different event traces".into());
        }
        let (w, n, mode, bound) = (u.w, u.n, u.mode, u.bound);
        let runp: *mut Run = &mut run;
        let mut last_calls: Vec<usize> = vec![];
        let lc: *mut Vec<usize> = &mut last_calls;
        let ex = |prefix: &[usize]| {
            let (x, calls) = exec(w, n, prefix);
            unsafe { *lc = calls };
            unsafe { (*runp).tick() };
            x
        };
        let ck = |x: &Exec<Vec<usize>>, _p: &[usize]| unsafe { check(&mut *runp, mode, w, n, bound, x, &*lc) };
        let deadline = run.deadline();
        let mut ex = ex;
        let mut ck = ck;
        let consumer_last = matches!(u.mode, "sender-races" | "channel-races" | "lagging-consumer");
        sched::set_base_policy(usize::from(consumer_last));
        POLICY.store(usize::from(consumer_last), Ordering::SeqCst);
        if u.mode == "default-schedule" || u.mode == "lagging-consumer" {
            let x = ex(&[]);
            ck(&x, &[]);
            run.count_n(&format!("{}:executions", u.mode), 1);
            per_unit.push(json!({"mode": u.mode, "workers": w, "items": n, "executions": 1, "steps": x.steps.len(), "completed": true}));
            continue;
        }
        if u.mode == "sender-races" || u.mode == "channel-races" {
            let senders_only = u.mode == "sender-races";
            let is_point = move |st: &tu_verif::sched::Step| {
                let at_chan = st
                    .parked
                    .iter()
                    .filter(|p| match p {
                        Some(Parked::Ev(Event::Send { obj: Obj::PipeChan })) | Some(Parked::Ev(Event::TrySend { obj: Obj::PipeChan })) => true,
                        Some(Parked::Ev(Event::Recv { obj: Obj::PipeChan })) => !senders_only,
                        _ => false,
                    })
                    .count();
                at_chan >= 2
            };
            let stats = sched::explore_deviations(u.bound.unwrap_or(1), deadline, is_point, &mut ex, &mut ck);
            run.count_n(&format!("{}:executions", u.mode), stats.executions);
            per_unit.push(json!({"mode": u.mode, "workers": w, "items": n, "max_deviations": bound, "executions": stats.executions, "max_depth": stats.max_depth, "completed": !stats.stopped_early}));
            if stats.stopped_early && run.num_violations() == 0 {
                run.capped = Some(format!("time budget reached in {mode} W={w} N={n}"));
            }
            continue;
        }
        let stats = match (u.bound, u.part) {
            (None, _) => sched::explore_states(deadline, vec![vec![]], 5_000_000, ex, ck),
            (Some(b), None) => sched::explore_bounded(b, deadline, vec![vec![]], ex, ck),
            (Some(b), Some((k, of))) => {
                let (x0, children) = sched::first_level_roots(b, &mut ex);
                if k == 0 {
                    ck(&x0, &[]);
                }
                let mine: Vec<Vec<usize>> = children.into_iter().enumerate().filter(|(i, _)| i % of == k).map(|(_, c)| c).collect();
                sched::explore_bounded(b, deadline, mine, ex, ck)
            }
        };
        run.count_n(&format!("{}:executions", u.mode), stats.executions);
        run.count_n("states", stats.states);
        run.count_n("transitions", stats.transitions);
        per_unit.push(json!({"mode": u.mode, "workers": w, "items": n, "bound": bound, "part": u.part, "spin_polls": u.spin, "upstream_size_hint": HINTS[u.hint], "executions": stats.executions, "states": stats.states,
            "transitions": stats.transitions, "terminal_states": stats.terminal_states, "max_depth": stats.max_depth,
            "max_preemptions_in_a_schedule": stats.max_preemptions_seen, "completed": !stats.stopped_early}));
        if stats.stopped_early && run.num_violations() == 0 {
            run.capped = Some(format!("{} in {mode} W={w} N={n}", if stats.out_of_time { "time budget reached" } else { "state cap hit" }));
        }
    }
    run.extra.insert("per_config".into(), json!(per_unit));
    run.finish();
}
