//! Randomness owned by the harness (DESIGN 3.3).
use rand::RngCore;
use rand::{Rng, SeedableRng};
use rand_chacha::ChaCha8Rng;

/// Scripted random source: every draw consumes one raw 64-bit word from the script (0 once the
/// script is exhausted). `random_range`, `WeightedIndex::sample` and `random::<f64>()` of rand 0.9
/// each consume exactly one word and are monotone in it (verified by `selftest`), so a grid of `k`
/// evenly spaced words reaches every outcome of every draw with at most `k` alternatives.
pub struct Script {
    pub vals: Vec<u64>,
    pub pos: usize,
}

impl Script {
    pub fn new(vals: Vec<u64>) -> Self {
        Script { vals, pos: 0 }
    }
    pub fn draws(&self) -> usize {
        self.pos
    }
}

impl RngCore for Script {
    fn next_u32(&mut self) -> u32 {
        (self.next_u64() >> 32) as u32
    }
    fn next_u64(&mut self) -> u64 {
        let v = self.vals.get(self.pos).copied().unwrap_or(0);
        self.pos += 1;
        v
    }
    fn fill_bytes(&mut self, d: &mut [u8]) {
        // not used by the subject; keep deterministic
        let v = self.next_u64().to_le_bytes();
        for (i, b) in d.iter_mut().enumerate() {
            *b = v[i % 8];
        }
    }
}

/// `k` raw words, one inside each of `k` equal cells of [0, 2^64): the cell mid-points plus a small
/// odd offset, so that for no `n <= k` a word sits on an outcome boundary of `random_range(0..n)`
/// (rand 0.9 draws a second word for bias correction when the first one is on a boundary).
pub fn grid(k: u64) -> Vec<u64> {
    (0..k).map(|i| ((((2 * i as u128 + 1) << 63) / k as u128) + (1u128 << 40)) as u64).collect()
}

/// Checks the facts the scripted source relies on, for the rand version actually linked: for every
/// n <= k <= 8, `grid(k)` reaches all n outcomes of `random_range(0..n)` and of a `WeightedIndex`
/// with n equal weights, each draw consuming exactly one word; `random::<f64>()` consumes one word.
pub fn selftest() -> Result<(), String> {
    for k in 1..=8u64 {
        for n in 1..=k as usize {
            let mut seen = std::collections::BTreeSet::new();
            for w in grid(k) {
                let mut s = Script::new(vec![w]);
                let v: usize = s.random_range(0..n);
                if s.draws() != 1 {
                    return Err(format!("random_range(0..{n}) consumed {} words for grid({k}) word {w:#x}", s.draws()));
                }
                seen.insert(v);
            }
            if seen.len() != n {
                return Err(format!("grid({k}) reached only {seen:?} of random_range(0..{n})"));
            }
            let mut seen = std::collections::BTreeSet::new();
            for w in grid(k) {
                let mut s = Script::new(vec![w]);
                let dist = rand::distr::weighted::WeightedIndex::new(vec![1.0f64; n]).unwrap();
                let v: usize = s.sample(dist);
                if s.draws() != 1 {
                    return Err(format!("WeightedIndex({n}) consumed {} words", s.draws()));
                }
                seen.insert(v);
            }
            if seen.len() != n {
                return Err(format!("grid({k}) reached only {seen:?} of WeightedIndex({n})"));
            }
        }
    }
    let mut s = Script::new(vec![u64::MAX / 2]);
    let f: f64 = s.random();
    if s.draws() != 1 || !(0.49..0.51).contains(&f) {
        return Err(format!("random::<f64>() gave {f} after {} draws", s.draws()));
    }
    Ok(())
}

/// Decision vector of the first `n` threshold draws `random::<f64>() < p` of a ChaCha8 generator
/// seeded with `seed` (the public, documented construction `corrupt_whitespace` and `switch` use).
pub fn decisions(seed: u64, n: usize, p: f64) -> Vec<bool> {
    let mut rng = ChaCha8Rng::seed_from_u64(seed);
    (0..n).map(|_| rng.random::<f64>() < p).collect()
}

/// Table: for every bit vector v of length n (as integer, bit i = i-th draw below 1/2), the
/// smallest seed whose first n draws at p = 1/2 produce it.
pub fn seed_table(n: usize) -> Vec<u64> {
    let total = 1usize << n;
    let mut table = vec![u64::MAX; total];
    let mut found = 0;
    let mut seed = 0u64;
    while found < total {
        let d = decisions(seed, n, 0.5);
        let mut key = 0usize;
        for (i, b) in d.iter().enumerate() {
            if *b {
                key |= 1 << i;
            }
        }
        if table[key] == u64::MAX {
            table[key] = seed;
            found += 1;
        }
        seed += 1;
        assert!(seed < 1 << 32, "seed table search did not converge");
    }
    table
}
