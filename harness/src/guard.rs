//! Panic capture: subject calls are wrapped in `catch`, panics are recorded, never printed.
use std::cell::RefCell;
use std::panic::{catch_unwind, AssertUnwindSafe};

thread_local! {
    static LAST_PANIC: RefCell<Option<String>> = const { RefCell::new(None) };
}

/// Installs a panic hook that records the message of the panicking thread and prints nothing.
/// Must be re-installed after every subject call that installs its own hook (`Pipe::new` with
/// threads, `train_bpe`).
pub fn quiet_panics() {
    std::panic::set_hook(Box::new(|info| {
        let msg = if let Some(s) = info.payload().downcast_ref::<&str>() {
            s.to_string()
        } else if let Some(s) = info.payload().downcast_ref::<String>() {
            s.clone()
        } else {
            "<non-string panic payload>".to_string()
        };
        let loc = info.location().map(|l| format!(" at {}:{}", l.file(), l.line())).unwrap_or_default();
        if std::env::var_os("VERIF_LOUD_PANICS").is_some() {
            eprintln!("panic: {msg}{loc}"); // debugging aid for panics of the harness itself
        }
        let _ = LAST_PANIC.try_with(|p| *p.borrow_mut() = Some(format!("{msg}{loc}")));
    }));
}

/// Runs `f`, converting a panic into `Err(message)`.
pub fn catch<T>(f: impl FnOnce() -> T) -> Result<T, String> {
    match catch_unwind(AssertUnwindSafe(f)) {
        Ok(v) => Ok(v),
        Err(payload) => {
            let recorded = LAST_PANIC.with(|p| p.borrow_mut().take());
            let msg = recorded.unwrap_or_else(|| {
                if let Some(s) = payload.downcast_ref::<&str>() {
                    s.to_string()
                } else if let Some(s) = payload.downcast_ref::<String>() {
                    s.clone()
                } else {
                    "<panic>".to_string()
                }
            });
            Err(msg)
        }
    }
}
