//! Exhaustive enumerators (no randomness): shortlex strings over an alphabet, mixed-radix counters,
//! subsets.

/// All strings over `alpha` with at most `max_len` symbols in shortlex order (shortest first, then
/// by alphabet order), starting with the empty string.
pub fn strings(alpha: &[&str], max_len: usize) -> Vec<String> {
    let mut out = vec![String::new()];
    let mut layer = vec![String::new()];
    for _ in 0..max_len {
        let mut next = Vec::with_capacity(layer.len() * alpha.len());
        for s in &layer {
            for a in alpha {
                let mut t = String::with_capacity(s.len() + a.len());
                t.push_str(s);
                t.push_str(a);
                next.push(t);
            }
        }
        out.extend(next.iter().cloned());
        layer = next;
    }
    out
}

/// All sequences over `0..radix` with at most `max_len` entries, shortlex.
pub fn sequences(radix: usize, max_len: usize) -> Vec<Vec<usize>> {
    let mut out = vec![vec![]];
    let mut layer: Vec<Vec<usize>> = vec![vec![]];
    for _ in 0..max_len {
        let mut next = Vec::with_capacity(layer.len() * radix);
        for s in &layer {
            for a in 0..radix {
                let mut t = s.clone();
                t.push(a);
                next.push(t);
            }
        }
        out.extend(next.iter().cloned());
        layer = next;
    }
    out
}

/// Mixed-radix counter: iterates over all index vectors `v` with `v[i] < radices[i]`, last position
/// fastest. Yields nothing if some radix is 0; yields the empty vector once if there are no radices.
pub struct Odometer {
    radices: Vec<usize>,
    cur: Vec<usize>,
    done: bool,
}

impl Odometer {
    pub fn new(radices: &[usize]) -> Self {
        Odometer { radices: radices.to_vec(), cur: vec![0; radices.len()], done: radices.iter().any(|r| *r == 0) }
    }

    pub fn total(radices: &[usize]) -> u64 {
        radices.iter().map(|r| *r as u64).product()
    }
}

impl Iterator for Odometer {
    type Item = Vec<usize>;
    fn next(&mut self) -> Option<Vec<usize>> {
        if self.done {
            return None;
        }
        let out = self.cur.clone();
        let mut i = self.radices.len();
        loop {
            if i == 0 {
                self.done = true;
                break;
            }
            i -= 1;
            self.cur[i] += 1;
            if self.cur[i] < self.radices[i] {
                break;
            }
            self.cur[i] = 0;
        }
        Some(out)
    }
}

/// all subsets of 0..n as bit masks
pub fn subsets(n: usize) -> impl Iterator<Item = u32> {
    0..(1u32 << n)
}

pub fn mask_to_vec(mask: u32, n: usize) -> Vec<usize> {
    (0..n).filter(|i| mask & (1 << i) != 0).collect()
}

/// Lengths just below, at and just above the powers of two a size threshold (chunking, a fast path
/// for short inputs, a small-vector capacity) would sit at: 2^4 .. 2^8 (thorough: up
/// to 2^10 / 2^12). The exhaustive short strings cannot reach such thresholds; the "long" families
/// are a structured, fully enumerated supplement (pattern x length x position of a disturbance).
pub fn threshold_lengths(max_pow: u32) -> Vec<usize> {
    let mut v = vec![];
    // (2^5 and 2^7 as well: a 32-slot buffer, a 64-bit word of 2-bit cells, a signed byte)
    for p in [4u32, 5, 6, 7, 8, 10, 12, 16] {
        if p <= max_pow {
            let n = 1usize << p;
            v.extend([n - 1, n, n + 1]);
        }
    }
    v
}

/// `symbols` repeated cyclically to exactly `n` symbols
pub fn repeat_symbols(symbols: &[&str], n: usize) -> String {
    (0..n).map(|i| symbols[i % symbols.len()]).collect()
}

/// Texts of `n` repetitions of one multi-byte character (2, 3 and 4 bytes wide) after 0..width ASCII
/// bytes: for every byte offset a threshold could sit at, one of the texts has a character that
/// straddles it (a byte-indexed cut there is not a character boundary) and one has a boundary there.
pub fn byte_aligned_texts(n: usize) -> Vec<String> {
    let mut out = vec![];
    for ch in ["ä", "€", "😀"] {
        for shift in 0..ch.len() {
            out.push(format!("{}{}", "a".repeat(shift), ch.repeat(n)));
        }
    }
    out
}
