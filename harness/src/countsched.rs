//! Engine B for the counting workers of `train_bpe` and `Dictionary::create` (DESIGN 4.5): only the
//! worker threads are controlled; the calling thread runs the subject function freely and is the
//! always-receiving reducer, so a send on the count channel never waits for a controlled thread and
//! the order in which the reducer sees the messages is exactly the controlled order of sends.
use crate::sched::{self, Config, Exec, Stats};
use std::time::Instant;
use text_utils::verif::{Obj, ThreadKind};

/// One execution: `body` (the call of the subject function, run uncontrolled on its own thread)
/// with `workers` controlled counting threads of the given kind following the schedule `prefix`.
pub fn exec<R: Send + 'static>(kind: ThreadKind, workers: usize, prefix: &[usize], body: impl FnOnce() -> R + Send + 'static) -> Exec<R> {
    exec_mode(kind, workers, false, prefix, body)
}

/// `controlled_reducer`: the calling thread is a controlled thread as well (logical thread 0): its
/// spawns and its receives on the count channel are scheduling points and the channel is the real
/// bounded channel (needs `num_threads >= 1`; a rendezvous channel is not modelled). Otherwise only
/// the workers are controlled and the reducer runs freely (see the module comment).
pub fn exec_mode<R: Send + 'static>(kind: ThreadKind, workers: usize, controlled_reducer: bool, prefix: &[usize], body: impl FnOnce() -> R + Send + 'static) -> Exec<R> {
    let cfg = Config {
        threads: (0..workers).map(|i| (kind, i)).collect(),
        consumer_controlled: controlled_reducer,
        horizon: 2000,
        prefix: prefix.to_vec(),
        state_fn: None,
        monitor: None,
        step_log: None,
        free_receivers: if controlled_reducer { vec![] } else { vec![Obj::CountChan] },
    };
    sched::run(cfg, move |_ctl| body())
}

/// All schedules of workers AND reducer with at most `bound` preemptions.
pub fn explore_controlled<R: Send + 'static, B: FnOnce() -> R + Send + 'static>(
    kind: ThreadKind,
    workers: usize,
    bound: usize,
    deadline: Option<Instant>,
    mut make_body: impl FnMut() -> B,
    check: impl FnMut(&Exec<R>, &[usize]) -> bool,
) -> Stats {
    sched::explore_bounded(bound, deadline, vec![vec![]], |prefix| exec_mode(kind, workers, true, prefix, make_body()), check)
}

/// All schedules of the counting workers with at most `bound` preemptions.
pub fn explore<R: Send + 'static, B: FnOnce() -> R + Send + 'static>(
    kind: ThreadKind,
    workers: usize,
    bound: usize,
    deadline: Option<Instant>,
    mut make_body: impl FnMut() -> B,
    check: impl FnMut(&Exec<R>, &[usize]) -> bool,
) -> Stats {
    sched::explore_bounded(bound, deadline, vec![vec![]], |prefix| exec(kind, workers, prefix, make_body()), check)
}
