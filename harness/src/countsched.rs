//! Engine B for the counting workers of `train_bpe` and `Dictionary::create` (DESIGN 4.5): only the
//! worker threads are controlled; the calling thread runs the subject function freely and is the
//! always-receiving reducer, so a send on the count channel never waits for a controlled thread and
//! the order in which the reducer sees the messages is exactly the controlled order of sends.
use crate::sched::{self, Config, Exec, Stats};
use std::time::Instant;
use text_utils::verif::{Obj, ThreadKind};

/// One execution: `body` (the call of the subject function, run uncontrolled on its own thread)
/// with `workers` controlled counting threads of the given kind following the schedule `prefix`.
pub fn exec<R: Send + 'static>(kind: ThreadKind, workers: usize, prefix: &[usize], body: impl FnOnce() -> R + Send + 'static) -> Exec<R> {
    let cfg = Config {
        threads: (0..workers).map(|i| (kind, i)).collect(),
        consumer_controlled: false,
        horizon: 2000,
        prefix: prefix.to_vec(),
        state_fn: None,
        monitor: None,
        step_log: None,
        free_receivers: vec![Obj::CountChan],
    };
    sched::run(cfg, move |_ctl| body())
}

/// All schedules of the counting workers with at most `bound` preemptions.
pub fn explore<R: Send + 'static, B: FnOnce() -> R + Send + 'static>(
    kind: ThreadKind,
    workers: usize,
    bound: usize,
    deadline: Option<Instant>,
    mut make_body: impl FnMut() -> B,
    check: impl FnMut(&Exec<R>, &[usize]) -> bool,
) -> Stats {
    sched::explore_bounded(bound, deadline, vec![vec![]], |prefix| exec(kind, workers, prefix, make_body()), check)
}
