//! Engine B: CHESS-style controlled scheduler over the real threads of the subject (DESIGN 4).
//!
//! Exactly one controlled thread runs at a time. A thread reaching a hook point parks; when every
//! live controlled thread is parked the controller computes the enabled set from its mirror of the
//! shared state (built only from what the implementation reports), picks the next thread according
//! to the schedule prefix (then: keep running the last thread if enabled, else lowest id) and wakes
//! it. Busy waiting and blocking channel operations are modelled as disabled threads, so "nobody
//! enabled but somebody alive" is a deadlock / livelock verdict and no thread ever blocks in the OS
//! while it is the running thread.
use std::collections::hash_map::DefaultHasher;
use std::collections::{BTreeMap, HashSet};
use std::hash::{Hash, Hasher};
use std::sync::{Arc, Condvar, Mutex};
use std::time::{Duration, Instant};
use text_utils::verif::{self, Controller, Event, Obj, ThreadKind};

/// How many times a busy-waiting thread is let through a repeated load of an unchanged atomic
/// before it counts as blocked (0 = the wait is blocking at once, apart from the one-shot probe).
/// Models "the item in front is slow": the waiter really polls that often before anything changes,
/// so code whose behaviour changes after a number of polls (spin, then back off) is reached.
static SPIN_POLLS: std::sync::atomic::AtomicUsize = std::sync::atomic::AtomicUsize::new(0);

/// Set before `run`; applies to the executions started afterwards.
pub fn set_spin_polls(n: usize) {
    SPIN_POLLS.store(n, std::sync::atomic::Ordering::SeqCst);
}

/// What a decision beyond the schedule prefix takes: 0 = keep running the last thread while it is
/// enabled, else the lowest id (run to block); 1 = "fair workers, consumer last": the enabled
/// background thread that follows the last one cyclically, thread 0 (the consumer) only when nobody
/// else is enabled -- every worker gets its turn and the channel fills before the consumer moves.
static BASE_POLICY: std::sync::atomic::AtomicUsize = std::sync::atomic::AtomicUsize::new(0);

/// Set before `run`; applies to the executions started afterwards.
pub fn set_base_policy(p: usize) {
    BASE_POLICY.store(p, std::sync::atomic::Ordering::SeqCst);
}

#[derive(Clone, Copy, Debug, PartialEq, Eq, Hash)]
pub enum Parked {
    Ev(Event),
    /// harness-only: the consumer waits until no other thread is enabled
    Quiesce,
    /// harness-only: an ordinary always-enabled scheduling point of the consumer program
    Harness(u32),
    /// the (controlled) parent is about to spawn this logical thread; threads spawned earlier may
    /// run before it does
    Spawn(usize),
}

#[derive(Clone, Debug, Default, PartialEq, Eq, Hash)]
pub struct ChanSt {
    pub cap: usize,
    pub len: usize,
    pub senders: usize,
    pub rx_dropped: bool,
    pub sent: usize,
    pub received: usize,
    pub failed_sends: usize,
    pub pulled: usize,
    pub upstream_done: bool,
}

/// What the controller knows about the shared objects — built only from what the instrumented
/// primitives report.
#[derive(Clone, Debug, Default, PartialEq, Eq, Hash)]
pub struct Mirror {
    pub locks: BTreeMap<Obj, Option<usize>>,
    pub atomics: BTreeMap<Obj, usize>,
    pub chans: BTreeMap<Obj, ChanSt>,
}

impl Mirror {
    pub fn chan(&self, obj: Obj) -> Option<&ChanSt> {
        self.chans.get(&obj)
    }
}

#[derive(Clone, Debug)]
pub struct ThreadSt {
    pub kind: ThreadKind,
    pub index: usize,
    pub registered: bool,
    pub parked: Option<Parked>,
    pub exited: bool,
    /// set when the thread's most recent operation was a load of this atomic that returned this
    /// value: a repeated load is a busy wait and stays disabled until the value changes
    pub last_load: Option<(Obj, usize)>,
    /// the thread's most recent operation was a timed receive on this channel that timed out while
    /// the channel had seen this many sends and had this many senders: asking again is a polling
    /// loop and stays disabled until one of the two changes (a wait made visible)
    pub last_timeout: Option<(Obj, usize, usize)>,
    /// the thread was let through a timed receive and has not reported its outcome yet
    pub in_timed_recv: bool,
    /// the thread was let through a repeated load once since the last change of shared state
    pub probed: bool,
    /// polls of the current busy wait that were let through (see `set_spin_polls`)
    pub spun: usize,
    /// the parent has passed the spawn point of this thread (always true under an uncontrolled parent)
    pub spawned: bool,
}

#[derive(Clone, Debug)]
pub struct Step {
    pub n_enabled: usize,
    pub pos: usize,
    pub cur_enabled: bool,
    pub tid: usize,
    pub at: Parked,
    /// hash of the global state in which this decision was taken
    pub key: u64,
    /// where every thread was parked when the decision was taken (None: exited)
    pub parked: Vec<Option<Parked>>,
}

#[derive(Clone, Debug, PartialEq, Eq)]
pub enum Halt {
    /// no thread enabled, some thread alive; `spinning` = some blocked thread busy-waits on an atomic
    Stuck { blocked: Vec<(usize, Parked)>, spinning: bool },
    Horizon { steps: usize, parked: Vec<(usize, Parked)> },
    Divergence(String),
    Timeout(String),
}

pub struct Config {
    /// background threads expected to register, in logical-id order (ids 1..)
    pub threads: Vec<(ThreadKind, usize)>,
    /// thread 0 (the body) is a controlled thread
    pub consumer_controlled: bool,
    pub horizon: usize,
    pub prefix: Vec<usize>,
    /// harness observations that are part of the global state (outputs so far, counters ...)
    pub state_fn: Option<Box<dyn Fn() -> Vec<u64> + Send + Sync>>,
    /// called at every decision with the mirror (all threads parked)
    pub monitor: Option<Box<dyn Fn(&Mirror, &[ThreadSt]) + Send + Sync>>,
    /// append one line `n_enabled pos cur_enabled tid` per decision to this file (for executions
    /// that end with the death of the process)
    pub step_log: Option<std::path::PathBuf>,
    /// channels whose receiver is an uncontrolled, always-receiving thread (the reducers of
    /// `train_bpe` / `Dictionary::create`): a send on them never has to wait for a controlled thread
    pub free_receivers: Vec<Obj>,
}

struct St {
    threads: Vec<ThreadSt>,
    running: Option<usize>,
    last: usize,
    mirror: Mirror,
    prefix: Vec<usize>,
    step: usize,
    horizon: usize,
    steps: Vec<Step>,
    trace: Vec<(Option<usize>, Event)>,
    anomalies: Vec<String>,
    halt: Option<Halt>,
    done: bool,
    final_key: u64,
    /// counts hook calls: the execution is alive as long as this moves
    activity: u64,
    /// with a controlled body every legitimate report comes from a registered thread
    ignore_untracked: bool,
    free_receivers: Vec<Obj>,
    spin_polls: usize,
    spun_total: u64,
    base_policy: usize,
}

pub struct Ctl {
    st: Mutex<St>,
    cv: Condvar,
    state_fn: Option<Box<dyn Fn() -> Vec<u64> + Send + Sync>>,
    monitor: Option<Box<dyn Fn(&Mirror, &[ThreadSt]) + Send + Sync>>,
    step_log: Option<Mutex<std::fs::File>>,
}

impl St {
    fn enabled(&self, t: usize) -> bool {
        let th = &self.threads[t];
        if th.exited || !th.registered || !th.spawned {
            return false;
        }
        let Some(p) = th.parked else { return false };
        match p {
            Parked::Quiesce => false,
            Parked::Harness(_) | Parked::Spawn(_) => true,
            Parked::Ev(ev) => match ev {
                Event::Lock { obj } => !matches!(self.mirror.locks.get(&obj), Some(Some(_))),
                Event::Load { obj } => match th.last_load {
                    Some((o, v)) if o == obj => self.mirror.atomics.get(&obj).map(|cur| *cur != v).unwrap_or(true),
                    _ => true,
                },
                Event::Send { obj } => self.free_receivers.contains(&obj) || self.mirror.chans.get(&obj).map(|c| c.len < c.cap || c.rx_dropped).unwrap_or(true),
                Event::Recv { obj } => self.mirror.chans.get(&obj).map(|c| c.len > 0 || c.senders == 0).unwrap_or(true),
                // non-blocking attempts never wait
                Event::TrySend { .. } | Event::TryRecv { .. } => true,
                // the timer of a timed receive may fire at any moment; a thread that comes straight
                // back after a timeout waits for the channel to change
                Event::RecvTimeout { obj } => match th.last_timeout {
                    Some((o, sent, senders)) if o == obj => self.mirror.chans.get(&obj).map(|c| c.sent != sent || c.senders != senders).unwrap_or(true),
                    _ => true,
                },
                _ => true,
            },
        }
    }

    fn key(&self, extra: &[u64]) -> u64 {
        let mut h = DefaultHasher::new();
        self.mirror.hash(&mut h);
        for t in &self.threads {
            (t.parked, t.exited, t.last_load, t.last_timeout, t.probed, t.spawned).hash(&mut h);
        }
        // which thread ran last matters for the default continuation only, not for the futures
        extra.hash(&mut h);
        h.finish()
    }

    fn parked_list(&self) -> Vec<(usize, Parked)> {
        self.threads.iter().enumerate().filter(|(_, t)| !t.exited).filter_map(|(i, t)| t.parked.map(|p| (i, p))).collect()
    }

    fn apply_note(&mut self, tid: Option<usize>, ev: Event) {
        // (the polls of a long busy wait are counted, not recorded)
        let repeated_poll = matches!((tid, ev), (Some(t), Event::Loaded { obj, value }) if t < self.threads.len() && self.threads[t].spun > 0 && self.threads[t].last_load == Some((obj, value)));
        if !repeated_poll {
            self.trace.push((tid, ev));
        }
        // anything but a repeated load ends a busy wait
        if let Some(t) = tid {
            if t < self.threads.len() && !matches!(ev, Event::Loaded { .. }) {
                self.threads[t].last_load = None;
                self.threads[t].spun = 0;
            }
        }
        if !matches!(ev, Event::Loaded { .. }) {
            for t in self.threads.iter_mut() {
                t.probed = false;
            }
        }
        match ev {
            Event::Locked { obj } => {
                if let Some(Some(holder)) = self.mirror.locks.get(&obj) {
                    self.anomalies.push(format!("{obj:?} locked by {tid:?} while held by thread {holder}"));
                }
                self.mirror.locks.insert(obj, Some(tid.unwrap_or(usize::MAX)));
            }
            Event::Unlocked { obj } => {
                self.mirror.locks.insert(obj, None);
            }
            Event::Loaded { obj, value } => {
                self.mirror.atomics.insert(obj, value);
                if let Some(t) = tid {
                    if t < self.threads.len() {
                        if self.threads[t].last_load != Some((obj, value)) {
                            self.threads[t].spun = 0;
                        }
                        self.threads[t].last_load = Some((obj, value));
                    }
                }
            }
            Event::Written { obj, value } => {
                self.mirror.atomics.insert(obj, value);
            }
            Event::ChannelCreated { obj, cap } => {
                self.mirror.chans.insert(obj, ChanSt { cap, senders: 1, ..Default::default() });
            }
            Event::Sent { obj, ok } => {
                let c = self.mirror.chans.entry(obj).or_default();
                if ok {
                    c.len += 1;
                    c.sent += 1;
                } else {
                    c.failed_sends += 1;
                }
            }
            Event::SenderCloned { obj } => {
                self.mirror.chans.entry(obj).or_default().senders += 1;
            }
            Event::SenderDropped { obj } => {
                let c = self.mirror.chans.entry(obj).or_default();
                c.senders = c.senders.saturating_sub(1);
            }
            Event::TryRecvd { obj, some } => {
                let c = self.mirror.chans.entry(obj).or_default();
                if some {
                    c.len = c.len.saturating_sub(1);
                    c.received += 1;
                }
                let snapshot = (obj, c.sent, c.senders);
                if let Some(t) = tid {
                    if t < self.threads.len() && std::mem::take(&mut self.threads[t].in_timed_recv) && !some {
                        self.threads[t].last_timeout = Some(snapshot);
                    }
                }
            }
            Event::ReceiverDropped { obj } => {
                self.mirror.chans.entry(obj).or_default().rx_dropped = true;
            }
            Event::Pulled { obj, some } => {
                let c = self.mirror.chans.entry(obj).or_default();
                if some {
                    c.pulled += 1;
                } else {
                    c.upstream_done = true;
                }
            }
            _ => {}
        }
    }

    /// effects of letting a parked thread go that the thread itself cannot report
    fn apply_grant(&mut self, t: usize, p: Parked) {
        match p {
            Parked::Ev(Event::Recv { obj }) => {
                self.threads[t].last_load = None;
                if let Some(c) = self.mirror.chans.get_mut(&obj) {
                    if c.len > 0 {
                        c.len -= 1;
                        c.received += 1;
                    }
                }
            }
            Parked::Ev(Event::Load { .. }) => {}
            Parked::Ev(Event::RecvTimeout { .. }) => {
                self.threads[t].last_load = None;
                self.threads[t].last_timeout = None;
                self.threads[t].in_timed_recv = true;
                return;
            }
            Parked::Spawn(id) => {
                self.threads[t].last_load = None;
                if id < self.threads.len() {
                    self.threads[id].spawned = true;
                }
            }
            _ => self.threads[t].last_load = None,
        }
        self.threads[t].last_timeout = None;
    }
}

impl Ctl {
    fn decide(&self, st: &mut St) {
        if st.halt.is_some() || st.done {
            return;
        }
        // threads the parent has not reached the spawn point of do not exist yet
        if st.threads.iter().any(|t| t.spawned && !t.registered) {
            return;
        }
        if st.threads.iter().any(|t| t.spawned && !t.exited && t.parked.is_none()) {
            return;
        }
        let extra = self.state_fn.as_ref().map(|f| f()).unwrap_or_default();
        let key = st.key(&extra);
        if let Some(m) = &self.monitor {
            m(&st.mirror, &st.threads);
        }
        let cur = st.last;
        let mut en: Vec<usize> = vec![];
        let cur_enabled = cur < st.threads.len() && st.enabled(cur);
        if cur_enabled {
            en.push(cur);
        }
        for t in 0..st.threads.len() {
            if t != cur && st.enabled(t) {
                en.push(t);
            }
        }
        if en.is_empty() {
            // A repeated load looks like a busy wait, but it could be straight-line code reading the
            // same value twice: before declaring anybody blocked, let each such thread through once.
            // A real busy wait comes straight back to the same load (and is then really blocked).
            if let Some(t) = (0..st.threads.len()).find(|t| {
                let th = &st.threads[*t];
                !th.exited && !th.probed && matches!(th.parked, Some(Parked::Ev(Event::Load { .. })))
            }) {
                st.threads[t].probed = true;
                en.push(t);
            }
        }
        if en.is_empty() {
            if let Some(q) = (0..st.threads.len()).find(|t| !st.threads[*t].exited && st.threads[*t].parked == Some(Parked::Quiesce)) {
                en.push(q);
            }
        }
        if en.is_empty() {
            st.final_key = key;
            if st.threads.iter().all(|t| t.exited || !t.spawned) {
                st.done = true;
            } else {
                let blocked = st.parked_list();
                let spinning = blocked.iter().any(|(_, p)| matches!(p, Parked::Ev(Event::Load { .. }) | Parked::Ev(Event::RecvTimeout { .. })));
                st.halt = Some(Halt::Stuck { blocked, spinning });
            }
            self.cv.notify_all();
            return;
        }
        if st.step >= st.horizon {
            st.final_key = key;
            st.halt = Some(Halt::Horizon { steps: st.step, parked: st.parked_list() });
            self.cv.notify_all();
            return;
        }
        let pos = if st.step < st.prefix.len() {
            st.prefix[st.step]
        } else if st.base_policy == 1 {
            let workers: Vec<usize> = en.iter().copied().filter(|t| *t != 0).collect();
            match workers.iter().copied().filter(|t| *t > st.last).min().or(workers.iter().copied().min()) {
                Some(t) => en.iter().position(|x| *x == t).unwrap(),
                None => 0,
            }
        } else {
            0
        };
        if pos >= en.len() {
            st.halt = Some(Halt::Divergence(format!("step {}: schedule asks for position {pos} but only {} threads are enabled", st.step, en.len())));
            self.cv.notify_all();
            return;
        }
        let t = en[pos];
        let at = st.threads[t].parked.expect("enabled thread is parked");
        if std::env::var_os("VERIF_SCHED_TRACE").is_some() {
            eprintln!("step {} en={:?} -> t{} at {:?}", st.step, en, t, at);
        }
        let parked = st.threads.iter().map(|t| if t.exited { None } else { t.parked }).collect();
        if let Some(f) = &self.step_log {
            use std::io::Write;
            let mut f = f.lock().unwrap();
            let _ = writeln!(f, "{} {} {} {}", en.len(), pos, u8::from(cur_enabled), t);
            let _ = f.flush();
        }
        st.steps.push(Step { n_enabled: en.len(), pos, cur_enabled, tid: t, at, key, parked });
        st.step += 1;
        st.apply_grant(t, at);
        st.threads[t].parked = None;
        st.running = Some(t);
        self.cv.notify_all();
    }

    fn park(&self, me: usize, p: Parked) {
        crate::run::progress();
        let mut st = self.st.lock().unwrap();
        st.activity += 1;
        // a busy wait that still has polls left: the same thread goes on (nobody else runs, nothing
        // changes -- the same as granting it again under the default continuation)
        if let Parked::Ev(Event::Load { obj }) = p {
            if st.spin_polls > 0 && st.running == Some(me) && st.halt.is_none() {
                if let Some((o, v)) = st.threads[me].last_load {
                    if o == obj && st.mirror.atomics.get(&obj) == Some(&v) && st.threads[me].spun < st.spin_polls {
                        st.threads[me].spun += 1;
                        st.spun_total += 1;
                        return;
                    }
                }
            }
        }
        if let Parked::Ev(ev) = p {
            // threads reach their start point in OS order; everything later is serialised
            if ev != Event::ThreadStart {
                st.trace.push((Some(me), ev));
            }
        }
        st.threads[me].parked = Some(p);
        if st.running == Some(me) {
            st.running = None;
            st.last = me;
        }
        if st.running.is_none() {
            self.decide(&mut st);
        }
        while st.running != Some(me) {
            if st.halt.is_some() {
                drop(st);
                // the execution was abandoned: this thread is never resumed
                loop {
                    std::thread::park();
                }
            }
            st = self.cv.wait(st).unwrap();
        }
    }

    /// harness-side scheduling points of the consumer program (thread 0)
    pub fn harness_point(&self, n: u32) {
        self.park(0, Parked::Harness(n));
    }

    /// the consumer waits until every other thread is blocked or gone
    pub fn await_quiescence(&self) {
        self.park(0, Parked::Quiesce);
    }

    pub fn mirror(&self) -> Mirror {
        self.st.lock().unwrap().mirror.clone()
    }
}

impl Controller for Ctl {
    fn spawning(&self, parent: Option<usize>, kind: ThreadKind, index: usize) {
        let id = {
            let mut st = self.st.lock().unwrap();
            match st.threads.iter().position(|t| t.kind == kind && t.index == index) {
                Some(id) => id,
                None => {
                    st.anomalies.push(format!("unexpected thread {kind:?} #{index} is being spawned"));
                    return;
                }
            }
        };
        match parent {
            // a scheduling point of the parent: the threads it spawned before may run first
            Some(p) => self.park(p, Parked::Spawn(id)),
            None => self.st.lock().unwrap().threads[id].spawned = true,
        }
    }

    fn register(&self, kind: ThreadKind, index: usize) -> usize {
        let mut st = self.st.lock().unwrap();
        match st.threads.iter().position(|t| t.kind == kind && t.index == index && !t.registered) {
            Some(id) => {
                st.threads[id].registered = true;
                id
            }
            None => {
                st.anomalies.push(format!("unexpected thread {kind:?} #{index} registered"));
                st.threads.push(ThreadSt { kind, index, registered: true, parked: None, exited: false, last_load: None, last_timeout: None, in_timed_recv: false, probed: false, spun: 0, spawned: true });
                st.threads.len() - 1
            }
        }
    }

    fn point(&self, tid: Option<usize>, ev: Event) {
        if let Some(me) = tid {
            self.park(me, Parked::Ev(ev));
        }
    }

    fn note(&self, tid: Option<usize>, ev: Event) {
        let mut st = self.st.lock().unwrap();
        if tid.is_none() && st.ignore_untracked {
            // stragglers of an abandoned execution
            return;
        }
        st.activity += 1;
        if ev == Event::ThreadExit {
            if let Some(me) = tid {
                st.trace.push((tid, ev));
                st.threads[me].exited = true;
                st.threads[me].parked = None;
                if st.running == Some(me) {
                    st.running = None;
                    st.last = me;
                }
                if st.running.is_none() {
                    self.decide(&mut st);
                }
            }
            return;
        }
        st.apply_note(tid, ev);
    }
}

pub struct Exec<R> {
    pub steps: Vec<Step>,
    pub halt: Option<Halt>,
    pub result: Option<R>,
    pub trace: Vec<(Option<usize>, Event)>,
    pub anomalies: Vec<String>,
    pub mirror: Mirror,
    pub final_key: u64,
    pub body_panic: Option<String>,
    /// polls of busy waits let through beyond the scheduling steps (see `set_spin_polls`)
    pub spun: u64,
}

impl<R> Exec<R> {
    pub fn choices(&self) -> Vec<usize> {
        self.steps.iter().map(|s| s.pos).collect()
    }
    pub fn schedule(&self) -> Vec<usize> {
        self.steps.iter().map(|s| s.tid).collect()
    }
    pub fn preemptions(&self) -> usize {
        self.steps.iter().filter(|s| s.cur_enabled && s.pos != 0).count()
    }
}

/// Runs one execution of `body` (logical thread 0 when `consumer_controlled`) under a fresh
/// controller. `body` gets the controller for its harness-only scheduling points.
pub fn run<R: Send + 'static>(cfg: Config, body: impl FnOnce(Arc<Ctl>) -> R + Send + 'static) -> Exec<R> {
    let mut threads = vec![ThreadSt { kind: ThreadKind::Consumer, index: 0, registered: true, parked: None, exited: !cfg.consumer_controlled, last_load: None, last_timeout: None, in_timed_recv: false, probed: false, spun: 0, spawned: true }];
    for (kind, index) in &cfg.threads {
        threads.push(ThreadSt { kind: *kind, index: *index, registered: false, parked: None, exited: false, last_load: None, last_timeout: None, in_timed_recv: false, probed: false, spun: 0, spawned: !cfg.consumer_controlled });
    }
    let ctl = Arc::new(Ctl {
        st: Mutex::new(St {
            threads,
            running: if cfg.consumer_controlled { Some(0) } else { None },
            last: 0,
            mirror: Mirror::default(),
            prefix: cfg.prefix,
            step: 0,
            horizon: cfg.horizon,
            steps: vec![],
            trace: vec![],
            anomalies: vec![],
            halt: None,
            done: false,
            final_key: 0,
            activity: 0,
            ignore_untracked: cfg.consumer_controlled,
            free_receivers: cfg.free_receivers,
            spin_polls: SPIN_POLLS.load(std::sync::atomic::Ordering::SeqCst),
            spun_total: 0,
            base_policy: BASE_POLICY.load(std::sync::atomic::Ordering::SeqCst),
        }),
        cv: Condvar::new(),
        state_fn: cfg.state_fn,
        monitor: cfg.monitor,
        step_log: cfg.step_log.map(|p| Mutex::new(std::fs::File::create(p).expect("cannot create step log"))),
    });
    verif::install(ctl.clone());
    let controlled = cfg.consumer_controlled;
    let c2 = ctl.clone();
    let (tx, rx) = std::sync::mpsc::channel::<Result<R, String>>();
    let handle = std::thread::Builder::new()
        .name("verif body".into())
        .spawn(move || {
            if controlled {
                verif::adopt_current_thread(Some(0));
            }
            let r = crate::guard::catch(|| body(c2));
            let _ = tx.send(r);
            // thread-local exit guard reports ThreadExit for thread 0
        })
        .expect("cannot spawn body thread");
    // wait for the end of the execution; it is declared dead only after 5 s without a single hook
    // call (a thread blocked outside the modelled operations), never because the machine is slow
    let mut body_result: Option<Result<R, String>> = None;
    {
        let mut st = ctl.st.lock().unwrap();
        let mut seen = st.activity;
        let mut since = Instant::now();
        loop {
            if st.halt.is_some() || st.done {
                break;
            }
            // an uncontrolled body (free-running caller): the execution is over when the body returned
            // and all background threads are gone
            if !controlled {
                if let Ok(r) = rx.try_recv() {
                    body_result = Some(r);
                }
                if body_result.is_some() && st.threads.iter().all(|t| t.exited || !t.spawned) {
                    st.done = true;
                    break;
                }
            }
            if st.activity != seen {
                seen = st.activity;
                since = Instant::now();
            } else if since.elapsed() > Duration::from_secs(5) {
                let parked = st.parked_list();
                let msg = format!("no hook call for 5 s; running={:?} last={} parked={:?} unregistered={:?} steps={} mirror={:?}", st.running, st.last, parked, st.threads.iter().filter(|t| !t.registered).count(), st.step, st.mirror);
                eprintln!("scheduler: {msg}");
                st.halt = Some(Halt::Timeout(msg));
                break;
            }
            let (g, _) = ctl.cv.wait_timeout(st, Duration::from_millis(if controlled { 100 } else { 1 })).unwrap();
            st = g;
        }
    }
    let halted = ctl.st.lock().unwrap().halt.is_some();
    if !halted {
        if body_result.is_none() {
            body_result = rx.recv_timeout(Duration::from_secs(crate::run::HANG_SECS)).ok();
        }
        let _ = handle.join();
    }
    verif::uninstall();
    // the subject may have replaced the panic hook (Pipe::new, train_bpe)
    crate::guard::quiet_panics();
    let st = ctl.st.lock().unwrap();
    let (result, body_panic) = match body_result {
        Some(Ok(r)) => (Some(r), None),
        Some(Err(p)) => (None, Some(p)),
        None => (None, None),
    };
    Exec {
        steps: st.steps.clone(),
        halt: st.halt.clone(),
        result,
        trace: st.trace.clone(),
        anomalies: st.anomalies.clone(),
        mirror: st.mirror.clone(),
        final_key: st.final_key,
        spun: st.spun_total,
        body_panic,
    }
}

// ------------------------------------------------------------------------------------------------
// exploration strategies
// ------------------------------------------------------------------------------------------------

#[derive(Default, Debug, Clone)]
pub struct Stats {
    pub executions: u64,
    pub max_depth: usize,
    pub states: u64,
    pub transitions: u64,
    pub terminal_states: u64,
    pub max_preemptions_seen: usize,
    pub stopped_early: bool,
    pub out_of_time: bool,
}

/// A timed-out execution (no hook call for 5 s) is only believed if it times out three times in a
/// row; an overloaded machine must not look like a blocked thread.
pub fn exec_retrying<R>(exec: &mut impl FnMut(&[usize]) -> Exec<R>, prefix: &[usize]) -> Exec<R> {
    let mut x = exec(prefix);
    for _ in 0..2 {
        if !matches!(x.halt, Some(Halt::Timeout(_))) {
            break;
        }
        // let threads of the abandoned execution that were still starting up pass their entry
        // hook while no controller is installed (they then run free and stay invisible)
        std::thread::sleep(Duration::from_secs(2));
        x = exec(prefix);
    }
    x
}

/// The first-level children of the default execution (every alternative at every decision that the
/// preemption bound allows). Their subtrees are disjoint and, together with the default execution
/// itself, make up the whole bounded search space — used to split one large search over processes.
pub fn first_level_roots<R>(bound: usize, exec: &mut impl FnMut(&[usize]) -> Exec<R>) -> (Exec<R>, Vec<Vec<usize>>) {
    let x = exec_retrying(exec, &[]);
    let choices = x.choices();
    let mut pre = 0usize;
    let mut children = vec![];
    for (i, s) in x.steps.iter().enumerate() {
        let cost = pre + usize::from(s.cur_enabled);
        if cost <= bound {
            for alt in 1..s.n_enabled {
                let mut p = choices[..i].to_vec();
                p.push(alt);
                children.push(p);
            }
        }
        if s.cur_enabled && s.pos != 0 {
            pre += 1;
        }
    }
    (x, children)
}

/// Stateless depth-first search over all schedules with at most `bound` preemptions (iterative
/// context bounding). `exec(prefix)` runs one execution; `check` sees every execution and returns
/// false to stop the search.
pub fn explore_bounded<R>(
    bound: usize,
    deadline: Option<Instant>,
    roots: Vec<Vec<usize>>,
    mut exec: impl FnMut(&[usize]) -> Exec<R>,
    mut check: impl FnMut(&Exec<R>, &[usize]) -> bool,
) -> Stats {
    let mut stats = Stats::default();
    let mut stack: Vec<Vec<usize>> = roots;
    stack.reverse();
    while let Some(prefix) = stack.pop() {
        if deadline.map(|d| Instant::now() > d).unwrap_or(false) {
            stats.stopped_early = true;
            stats.out_of_time = true;
            break;
        }
        let x = exec_retrying(&mut exec, &prefix);
        stats.executions += 1;
        stats.max_depth = stats.max_depth.max(x.steps.len());
        stats.transitions += (x.steps.len() - prefix.len().min(x.steps.len())) as u64;
        stats.max_preemptions_seen = stats.max_preemptions_seen.max(x.preemptions());
        if !check(&x, &prefix) {
            stats.stopped_early = true;
            break;
        }
        if matches!(x.halt, Some(Halt::Divergence(_)) | Some(Halt::Timeout(_))) {
            continue;
        }
        let choices = x.choices();
        let mut pre = 0usize;
        let mut children = vec![];
        for (i, s) in x.steps.iter().enumerate() {
            if i >= prefix.len() {
                let cost = pre + usize::from(s.cur_enabled);
                if cost <= bound {
                    for alt in 1..s.n_enabled {
                        let mut p = choices[..i].to_vec();
                        p.push(alt);
                        children.push(p);
                    }
                }
            }
            if s.cur_enabled && s.pos != 0 {
                pre += 1;
            }
        }
        // depth-first, leftmost first
        children.reverse();
        stack.extend(children);
    }
    stats
}

/// Deviation-bounded search over a restricted set of decision points: the default schedule, and
/// every schedule that departs from the default continuation (takes another enabled thread) at no
/// more than `max_deviations` of the decisions for which `is_point` holds; all other decisions take
/// the default. For configurations whose full schedule space is out of reach (many threads): the
/// alphabet of deviations is a named kind of race instead of every preemption.
pub fn explore_deviations<R>(
    max_deviations: usize,
    deadline: Option<Instant>,
    is_point: impl Fn(&Step) -> bool,
    mut exec: impl FnMut(&[usize]) -> Exec<R>,
    mut check: impl FnMut(&Exec<R>, &[usize]) -> bool,
) -> Stats {
    let mut stats = Stats::default();
    // (prefix, deviations used in it)
    let mut stack: Vec<(Vec<usize>, usize)> = vec![(vec![], 0)];
    while let Some((prefix, used)) = stack.pop() {
        if deadline.map(|d| Instant::now() > d).unwrap_or(false) {
            stats.stopped_early = true;
            stats.out_of_time = true;
            break;
        }
        let x = exec_retrying(&mut exec, &prefix);
        stats.executions += 1;
        stats.max_depth = stats.max_depth.max(x.steps.len());
        stats.transitions += (x.steps.len() - prefix.len().min(x.steps.len())) as u64;
        stats.max_preemptions_seen = stats.max_preemptions_seen.max(x.preemptions());
        if !check(&x, &prefix) {
            stats.stopped_early = true;
            break;
        }
        if matches!(x.halt, Some(Halt::Divergence(_)) | Some(Halt::Timeout(_))) || used >= max_deviations {
            continue;
        }
        let choices = x.choices();
        let mut children = vec![];
        for (i, s) in x.steps.iter().enumerate().skip(prefix.len()) {
            if is_point(s) {
                for alt in (0..s.n_enabled).filter(|a| *a != s.pos) {
                    let mut p = choices[..i].to_vec();
                    p.push(alt);
                    children.push((p, used + 1));
                }
            }
        }
        children.reverse();
        stack.extend(children);
    }
    stats
}

/// Explicit-state search with no preemption bound: every reachable global state (mirror + thread
/// program points + harness observations) is expanded exactly once; a schedule prefix whose end
/// state was already seen is not extended.
pub fn explore_states<R>(
    deadline: Option<Instant>,
    roots: Vec<Vec<usize>>,
    max_states: u64,
    mut exec: impl FnMut(&[usize]) -> Exec<R>,
    mut check: impl FnMut(&Exec<R>, &[usize]) -> bool,
) -> Stats {
    let mut stats = Stats::default();
    let mut visited: HashSet<u64> = HashSet::new();
    let mut terminals: HashSet<u64> = HashSet::new();
    let mut stack: Vec<Vec<usize>> = roots;
    stack.reverse();
    while let Some(prefix) = stack.pop() {
        if deadline.map(|d| Instant::now() > d).unwrap_or(false) {
            stats.stopped_early = true;
            stats.out_of_time = true;
            break;
        }
        let x = exec_retrying(&mut exec, &prefix);
        stats.executions += 1;
        stats.max_depth = stats.max_depth.max(x.steps.len());
        stats.max_preemptions_seen = stats.max_preemptions_seen.max(x.preemptions());
        if !check(&x, &prefix) {
            stats.stopped_early = true;
            break;
        }
        if matches!(x.halt, Some(Halt::Divergence(_)) | Some(Halt::Timeout(_))) {
            continue;
        }
        if !prefix.is_empty() {
            stats.transitions += 1; // the alternative edge that ends the prefix
        }
        let choices = x.choices();
        let mut children = vec![];
        let mut pruned = false;
        for i in prefix.len()..x.steps.len() {
            let s = &x.steps[i];
            if !visited.insert(s.key) {
                pruned = true;
                break;
            }
            stats.transitions += 1; // the default edge out of this state
            for alt in 1..s.n_enabled {
                let mut p = choices[..i].to_vec();
                p.push(alt);
                children.push(p);
            }
        }
        if !pruned && terminals.insert(x.final_key) {
            stats.terminal_states += 1;
        }
        children.reverse();
        stack.extend(children);
        if visited.len() as u64 > max_states {
            stats.stopped_early = true;
            break;
        }
    }
    stats.states = visited.len() as u64 + terminals.len() as u64;
    stats
}
