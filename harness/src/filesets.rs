//! How a list of lines is presented as files: every way of cutting it into files and every way of
//! terminating the lines. Properties about "the lines of the files" must not depend on either.

/// every line ends in "\n"
pub const TERM_LF: u8 = 0;
/// the last line of the file has no line terminator (needs a non-empty last line to be the same lines)
pub const TERM_LAST_OPEN: u8 = 1;
/// every line ends in "\r\n"
pub const TERM_CRLF: u8 = 2;

pub fn term_name(t: u8) -> &'static str {
    match t {
        TERM_LAST_OPEN => "last line unterminated",
        TERM_CRLF => "crlf",
        _ => "lf",
    }
}

pub fn term_from_name(s: Option<&str>) -> u8 {
    match s {
        Some("last line unterminated") => TERM_LAST_OPEN,
        Some("crlf") => TERM_CRLF,
        _ => TERM_LF,
    }
}

/// the bytes of a file with the given lines
pub fn file_body(lines: &[String], term: u8) -> String {
    let nl = if term == TERM_CRLF { "\r\n" } else { "\n" };
    let mut s: String = lines.iter().map(|l| format!("{l}{nl}")).collect();
    if term == TERM_LAST_OPEN && lines.last().map(|l| !l.is_empty()).unwrap_or(false) {
        s.truncate(s.len() - 1);
    }
    s
}

/// the ways of writing the files other than all-LF: every non-empty set of files whose (non-empty)
/// last line is left unterminated, and all files with CRLF line ends
pub fn term_patterns(files: &[Vec<String>]) -> Vec<Vec<u8>> {
    let n = files.len();
    let mut out = vec![];
    for mask in 1u32..(1 << n) {
        if (0..n).all(|i| mask & (1 << i) == 0 || files[i].last().map(|l| !l.is_empty()).unwrap_or(false)) {
            out.push((0..n).map(|i| if mask & (1 << i) != 0 { TERM_LAST_OPEN } else { TERM_LF }).collect());
        }
    }
    out.push(vec![TERM_CRLF; n]);
    out
}

/// all ways of cutting `lines` into consecutive non-empty files
pub fn compositions(lines: &[String]) -> Vec<Vec<Vec<String>>> {
    let n = lines.len();
    let mut out = vec![];
    for mask in 0..(1u32 << (n - 1)) {
        let mut files: Vec<Vec<String>> = vec![vec![]];
        for (i, l) in lines.iter().enumerate() {
            if i > 0 && mask & (1 << (i - 1)) != 0 {
                files.push(vec![]);
            }
            files.last_mut().unwrap().push(l.clone());
        }
        out.push(files);
    }
    out
}
