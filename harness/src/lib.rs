//! tu-verif: bounded-exhaustive model checking harness for ad-freiburg/text-utils.
//! See /verif/DESIGN.md.
pub mod countsched;
pub mod enumerate;
pub mod filesets;
pub mod guard;
pub mod refs;
pub mod run;
pub mod sched;
pub mod srng;
